package main

// E5 — seeded-change corpus replay (checker self-validation, never a verdict).
//
// In the thorough tier every change kept under <verif>/seeded/*/ whose
// meta.json names this property is applied to a scratch copy of the analysed
// tree (made with os.MkdirTemp outside /repo and /verif, removed afterwards);
// the property's rules are run on the copy and the evidence records whether
// the change was detected.  A patch that no longer applies is skipped.  The
// result never changes the exit code.

import (
	"encoding/json"
	"fmt"
	"os"
	"os/exec"
	"path/filepath"
	"runtime"
	"sort"
	"strings"
)

type seedMeta struct {
	Property   string   `json:"property"`
	Properties []string `json:"also_breaks"`
	Title      string   `json:"title"`
}

func replayCorpus(rep *Report, prop, repo, verif string) {
	dirs, _ := filepath.Glob(filepath.Join(verif, "seeded", "*"))
	sort.Strings(dirs)
	var lines []string
	applicable, detected := 0, 0
	for _, d := range dirs {
		mb, err := os.ReadFile(filepath.Join(d, "meta.json"))
		if err != nil {
			continue
		}
		var m seedMeta
		if json.Unmarshal(mb, &m) != nil {
			continue
		}
		rel := m.Property == prop
		for _, p := range m.Properties {
			if p == prop {
				rel = true
			}
		}
		if !rel {
			continue
		}
		patch := filepath.Join(d, "patch.diff")
		if _, err := os.Stat(patch); err != nil {
			continue
		}
		tmp, err := os.MkdirTemp("", "hlint-corpus-")
		if err != nil {
			continue
		}
		func() {
			defer os.RemoveAll(tmp)
			defer func() {
				resetProgramCaches()
				runtime.GC()
			}()
			cp := exec.Command("cp", "-a", repo+"/.", tmp)
			if out, err := cp.CombinedOutput(); err != nil {
				lines = append(lines, fmt.Sprintf("%s: copy failed: %v %s", filepath.Base(d), err, out))
				return
			}
			os.RemoveAll(filepath.Join(tmp, ".git"))
			ap := exec.Command("patch", "-p1", "-s", "--no-backup-if-mismatch", "-i", patch)
			ap.Dir = tmp
			if out, err := ap.CombinedOutput(); err != nil {
				lines = append(lines, fmt.Sprintf("%s: skipped (patch does not apply to this tree: %s)", filepath.Base(d), strings.TrimSpace(strings.Split(string(out), "\n")[0])))
				return
			}
			w, err := loadWorld(tmp, Config{GOOS: "linux", GOARCH: "amd64"})
			if err != nil {
				lines = append(lines, fmt.Sprintf("%s: skipped (does not load: %v)", filepath.Base(d), err))
				return
			}
			applicable++
			r2 := newReport(prop)
			func() {
				defer func() {
					if e := recover(); e != nil {
						r2.undecided("internal", "analyser panic", "-", fmt.Sprint(e))
					}
				}()
				registry[prop](w, r2)
			}()
			var hits []string
			for _, o := range dedupeObls(r2.Obls) {
				if o.Status == "violated" || o.Status == "undecided" {
					known := false
					for _, k := range mustKnown(verif, prop) {
						if k == o.Key {
							known = true
						}
					}
					if !known {
						hits = append(hits, o.Key)
					}
				}
			}
			for _, fc := range r2.Floors {
				if fc.Got < fc.Min {
					hits = append(hits, "floor · "+fc.Name)
				}
			}
			if len(hits) > 0 {
				detected++
				if len(hits) > 2 {
					hits = append(hits[:2], fmt.Sprintf("… (%d)", len(hits)))
				}
				lines = append(lines, fmt.Sprintf("%s: DETECTED by %s", filepath.Base(d), strings.Join(hits, " | ")))
			} else {
				lines = append(lines, fmt.Sprintf("%s: MISSED", filepath.Base(d)))
			}
		}()
	}
	rep.role("seeded-change corpus replay (self-validation, does not affect the verdict)", append([]string{fmt.Sprintf("detected %d of %d applicable", detected, applicable)}, lines...))
	rep.note("corpus replay: detected %d of %d applicable seeded changes for %s", detected, applicable, prop)
}

func mustKnown(verif, prop string) []string {
	ks, _ := loadKnown(filepath.Join(verif, "known_findings.json"))
	var out []string
	for _, k := range ks {
		if k.Property == prop && k.Status == "known" {
			out = append(out, k.Key)
		}
	}
	return out
}
