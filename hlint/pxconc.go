package main

// pxconc — the path explorer reads frozen init-time memory (frozen.go) as
// constants and follows function values.
//
//   * a load from a package-level table at an index the path has decided
//     (`kinds[tag]` with the tag fixed, `leaf[kind]` with the kind pinned,
//     `rules[i].match` in an unrolled loop) yields the value stored there by
//     package initialisation: an integer / boolean constant, or a term that
//     carries the concrete function value / struct / slice (Term.CV);
//   * a call whose callee operand is such a function value is the call of that
//     function: method-expression thunks and bound-method wrappers are looked
//     through to the declared method, closures get their bindings as the terms
//     of their free variables;
//   * comparisons of such values with nil are decided.

import (
	"fmt"
	"go/token"
	"go/types"
	"math/big"

	"golang.org/x/tools/go/ssa"
)

// concTerm: the term of a concrete value (nil when it has no useful form).
func (p *PX) concTerm(cv *cval, t types.Type) *Term {
	if cv == nil {
		return nil
	}
	switch cv.k {
	case cvInt:
		if _, _, ok := intTypeInfo(p.w, t); !ok {
			return nil
		}
		return &Term{K: TConst, C: cv.I, T: t, key: cv.I.String()}
	case cvBool:
		return &Term{K: TBoolConst, Bool: cv.B, T: t, key: fmt.Sprintf("%v", cv.B)}
	case cvNil:
		return &Term{K: TLeaf, T: t, CV: cv, key: "nil:" + t.String()}
	case cvFunc:
		if len(cv.Bind) == 0 && len(cv.Fn.FreeVars) == 0 {
			// a plain function value: ONE term, whichever mechanism read it (pxro.go fnTerm)
			ft := fnTerm(cv.Fn)
			ft.CV = cv
			return ft
		}
		// a closure made by package initialisation: its bindings are concrete values
		return &Term{K: TLeaf, T: t, CV: cv, key: fmt.Sprintf("fn:%s@%p", qualifiedFnName(cv.Fn), cv)}
	case cvSlice, cvPtr:
		return &Term{K: TLeaf, T: t, CV: cv, key: fmt.Sprintf("cv:%s", cv.String())}
	case cvAgg:
		return &Term{K: TLeaf, T: t, CV: cv, key: fmt.Sprintf("cv:agg@%p", cv)}
	}
	return nil
}

// concAddr: the frozen-memory cell the address v denotes on this path, or nil.
func (p *PX) concAddr(v ssa.Value, fr *pxFrame, st *pxState) *cell {
	switch x := v.(type) {
	case *ssa.Global:
		if x.Pkg != p.w.Pkg {
			return nil
		}
		ce, _ := p.w.frozenCells()
		if ce.dead {
			return nil
		}
		return ce.globals[x]
	case *ssa.IndexAddr:
		it := p.term(x.Index, fr, st)
		if it.K != TConst || !it.C.IsInt64() {
			return nil
		}
		i := int(it.C.Int64())
		if _, isPtr := x.X.Type().Underlying().(*types.Pointer); isPtr {
			base := p.concAddr(x.X, fr, st)
			if base == nil {
				if bt := p.term(x.X, fr, st); bt.CV != nil && bt.CV.k == cvPtr {
					base = bt.CV.Cell
				}
			}
			if base == nil || i < 0 || i >= len(base.sub) {
				return nil
			}
			return base.sub[i]
		}
		bt := p.term(x.X, fr, st)
		if bt.CV == nil || bt.CV.k != cvSlice {
			return nil
		}
		s := bt.CV
		if i < 0 || s.Lo+i >= s.Hi || s.Lo+i >= len(s.Cell.sub) {
			return nil
		}
		return s.Cell.sub[s.Lo+i]
	case *ssa.FieldAddr:
		base := p.concAddr(x.X, fr, st)
		if base == nil {
			if bt := p.term(x.X, fr, st); bt.CV != nil && bt.CV.k == cvPtr {
				base = bt.CV.Cell
			}
		}
		if base == nil || x.Field >= len(base.sub) {
			return nil
		}
		return base.sub[x.Field]
	}
	return nil
}

// concLoad: the term of a load from address a, when a is frozen memory.
func (p *PX) concLoad(a ssa.Value, t types.Type, fr *pxFrame, st *pxState) *Term {
	switch a.(type) {
	case *ssa.Global, *ssa.IndexAddr, *ssa.FieldAddr:
	default:
		return nil
	}
	c := p.concAddr(a, fr, st)
	if c == nil {
		return nil
	}
	v, ok := p.w.frozenLoad(c)
	if !ok {
		return nil
	}
	return p.concTerm(v, t)
}

// concElem: field / element i of a concrete aggregate term.
func (p *PX) concElem(a *Term, i int, t types.Type) *Term {
	if a == nil || a.CV == nil || a.CV.k != cvAgg || i < 0 || i >= len(a.CV.Elems) {
		return nil
	}
	return p.concTerm(a.CV.Elems[i], t)
}

// concLen: len of a concrete slice / array term.
func (p *PX) concLen(a *Term, t types.Type) *Term {
	if a == nil || a.CV == nil {
		return nil
	}
	n := -1
	switch a.CV.k {
	case cvSlice:
		n = a.CV.Hi - a.CV.Lo
	case cvAgg:
		if _, isArr := a.T.Underlying().(*types.Array); isArr {
			n = len(a.CV.Elems)
		}
	case cvNil:
		if _, isSl := a.T.Underlying().(*types.Slice); isSl {
			n = 0
		}
	}
	if n < 0 {
		return nil
	}
	c := big.NewInt(int64(n))
	return &Term{K: TConst, C: c, T: t, key: c.String()}
}

// concNilCmp: `a == b` / `a != b` where one side is the nil constant and the
// other a concrete function value / pointer / slice (or a concrete nil).
func concNilCmp(op token.Token, a, b *Term, t types.Type) *Term {
	if op != token.EQL && op != token.NEQ {
		return nil
	}
	isNilConst := func(x *Term) bool {
		if x.CV != nil {
			return false
		}
		c, ok := x.V.(*ssa.Const)
		return ok && c.Value == nil
	}
	var other *Term
	switch {
	case isNilConst(a):
		other = b
	case isNilConst(b):
		other = a
	default:
		return nil
	}
	var isNil bool
	if other.CV == nil {
		// a concrete value boxed into an interface is a non-nil interface value
		// (language semantics), whichever frame boxed it
		if _, boxed := other.V.(*ssa.MakeInterface); boxed && other.K == TLeaf {
			r := op == token.NEQ
			return &Term{K: TBoolConst, Bool: r, T: t, key: fmt.Sprintf("%v", r)}
		}
		return nil
	}
	switch other.CV.k {
	case cvNil:
		isNil = true
	case cvFunc, cvPtr, cvSlice:
		isNil = false
	default:
		return nil
	}
	r := isNil == (op == token.EQL)
	return &Term{K: TBoolConst, Bool: r, T: t, key: fmt.Sprintf("%v", r)}
}

// pxCallee: what a call instruction invokes on this path.
type pxCallee struct {
	fn    *ssa.Function
	args  []*Term     // argument terms in the order of fn.Params
	vals  []ssa.Value // the SSA value behind each argument (nil when there is none)
	binds []*Term     // terms of fn.FreeVars
}

// resolveCall: the static callee, or the function value the callee operand is
// known to hold on this path; nil when unknown.
func (p *PX) resolveCall(c *ssa.Call, fr *pxFrame, st *pxState) *pxCallee {
	cc := c.Common()
	if cc.IsInvoke() {
		return nil
	}
	if _, isB := cc.Value.(*ssa.Builtin); isB {
		return nil
	}
	out := &pxCallee{}
	for _, a := range cc.Args {
		out.args = append(out.args, p.term(a, fr, st))
		out.vals = append(out.vals, a)
	}
	if sc := cc.StaticCallee(); sc != nil {
		out.fn = sc
		if mc, ok := cc.Value.(*ssa.MakeClosure); ok {
			for _, b := range mc.Bindings {
				out.binds = append(out.binds, p.term(b, fr, st))
			}
		}
		return out
	}
	ft := p.term(cc.Value, fr, st)
	if ft.CV == nil || ft.CV.k != cvFunc || ft.CV.Fn == nil {
		return nil
	}
	fn := ft.CV.Fn
	var binds []*Term
	for i, b := range ft.CV.Bind {
		var bt *Term
		if i < len(fn.FreeVars) {
			bt = p.concTerm(b, fn.FreeVars[i].Type())
		}
		if bt == nil {
			bt = &Term{K: TLeaf, T: types.Typ[types.Invalid], key: fmt.Sprintf("<bind%d@%p>", i, ft.CV)}
		}
		binds = append(binds, bt)
	}
	if fn.Synthetic != "" {
		target := p.w.throughWrapper(fn)
		if target == fn || target.Signature.Recv() == nil {
			return nil
		}
		switch {
		case len(fn.FreeVars) == 1 && len(binds) == 1 && len(target.Params) == len(out.args)+1:
			// bound method wrapper: the receiver is the binding
			out.args = append([]*Term{binds[0]}, out.args...)
			out.vals = append([]ssa.Value{nil}, out.vals...)
		case len(fn.FreeVars) == 0 && len(target.Params) == len(out.args):
			// method expression thunk: the receiver is the first argument
		default:
			return nil
		}
		out.fn = target
		return out
	}
	out.fn, out.binds = fn, binds
	return out
}

// calleeOf: the function a call invokes on this path (static, or through a
// function value the path knows: pxfuncs.go funcValueCallee first, then the
// readers of frozen init-time memory); nil when unknown.  The same order as the
// explorer's own call step (px.go).
func (p *PX) calleeOf(c *ssa.Call, fr *pxFrame, st *pxState) *ssa.Function {
	if sc := c.Call.StaticCallee(); sc != nil {
		// (a closure or method value called where it is made — `writeItem := e.WriteData`
		// with writeItem never reassigned — has the literal / bound wrapper as its
		// "static" callee: the explorer's call step resolves it as a function value)
		if len(sc.FreeVars) > 0 {
			if fn, _, _ := p.funcValueCallee(c, fr, st); fn != nil {
				return fn
			}
		}
		return p.w.unthunk(sc)
	}
	if fn, _, _ := p.funcValueCallee(c, fr, st); fn != nil {
		return fn
	}
	if rc := p.resolveCall(c, fr, st); rc != nil {
		return rc.fn
	}
	return nil
}

// callArgs: the argument values of call c in the order of the parameters of
// the function it invokes on this path (receiver first; an entry is nil where
// the argument is not an SSA value of the calling frame).
func (p *PX) callArgs(c *ssa.Call, fr *pxFrame, st *pxState) ([]ssa.Value, []*Term) {
	var ts []*Term
	for _, a := range c.Call.Args {
		ts = append(ts, p.term(a, fr, st))
	}
	if sc := c.Call.StaticCallee(); sc == nil || len(sc.FreeVars) > 0 {
		if fn, _, recv := p.funcValueCallee(c, fr, st); fn != nil {
			if recv != nil {
				// a method value: the receiver was bound when the value was made
				return append([]ssa.Value{nil}, c.Call.Args...), append([]*Term{recv}, ts...)
			}
			return c.Call.Args, ts
		}
		if sc == nil {
			if rc := p.resolveCall(c, fr, st); rc != nil {
				return rc.vals, rc.args
			}
		}
	}
	return c.Call.Args, ts
}

func init() {
	// -dump disp:<function>: the 256-tag dispatch map of a function
	extraDumpsPrefix["disp:"] = func(w *World, arg string) {
		fn := w.fn(arg)
		if fn == nil {
			fmt.Println("no such function")
			return
		}
		d := w.dispatchOf(fn, nil)
		if d == nil {
			fmt.Println("no dispatch")
			return
		}
		for _, l := range armSummary(d) {
			fmt.Println(l)
		}
	}
}
