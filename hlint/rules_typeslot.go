package main

// Type slots of the typed list / typed map headers (C01, C02).
//
// The decoder keeps ONE table of type names and appends every literal type it
// reads, in lists and in maps alike (C03.R4 decides that on the decoder side).
// As long as the encoder writes a literal string in every type slot, nothing
// has to agree.  Once some path writes an int there — a type back-reference —
// the int is only right if the encoder counts exactly the literals the decoder
// counts: every literal written in ANY type slot (list or map) must be numbered
// in the table the references are taken from.  A writer that emits literals
// without numbering them shifts every later reference.

import (
	"fmt"
	"regexp"
	"sort"
	"strings"
)

type typeSlot struct {
	writer string
	hdr    string
	kind   string // scalar:string | scalar:int | other
	pos    string
	tables map[string]bool // struct-field tables updated on the path
	term   string          // key of the term written (literal slots)
}

func (w *World) typeSlots() ([]typeSlot, []string) {
	var out []typeSlot
	var undecided []string
	for _, name := range []string{"(*Encoder).writeList", "(*Encoder).writeMap"} {
		fn := w.role(name)
		if fn == nil {
			undecided = append(undecided, name+": anchor not found")
			continue
		}
		wi := w.writerPaths(fn)
		if wi.truncated {
			undecided = append(undecided, name+": path exploration exceeded its budget")
			continue
		}
		for _, p := range wi.paths {
			tables := map[string]bool{}
			for _, e := range p.Trace {
				if e.Kind == "mapupdate" || (e.Kind == "fieldstore" && len(e.Args) == 1 && e.Args[0] != nil && e.Args[0].K == TPure && e.Args[0].Name == "append") {
					tables[e.Extra] = true
				}
			}
			hdr := ""
			for i := range p.Trace {
				e := &p.Trace[i]
				if e.Kind == "octets" && len(e.Args) > 0 && e.Args[0] != nil {
					s, _ := w.evalEv(e.Args[0], e.Env)
					hdr = ""
					if s != nil && !s.Empty() {
						switch {
						case s.SubsetOf(mkSet(0x70, 0x77)):
							hdr = "x70-x77"
						case s.Equal(single(0x55)), s.Equal(single(0x56)), s.Equal(single(0x4d)):
							hdr = fmt.Sprintf("x%02x", s.Min().Int64())
						}
					}
					continue
				}
				if hdr == "" {
					continue
				}
				switch {
				case e.Kind == "loophead" || e.Kind == "fieldstore" || e.Kind == "mapupdate" || e.Kind == "register" || e.Kind == "typetest" || strings.HasPrefix(e.Kind, "encode:"):
					continue
				case strings.HasPrefix(e.Kind, "scalar:"):
					tk := ""
					if len(e.Args) > 0 && e.Args[0] != nil {
						// the same expression evaluated in a helper stepped into on different
						// paths differs only in its frame number
						tk = frameIDs.ReplaceAllString(e.Args[0].key, "c/")
					}
					out = append(out, typeSlot{name, hdr, e.Kind, e.Pos, tables, tk})
				default:
					out = append(out, typeSlot{name, hdr, "other:" + e.Kind, e.Pos, tables, ""})
				}
				hdr = ""
			}
		}
	}
	return out, undecided
}

func (w *World) ruleTypeSlots(r *Report, rule string) {
	slots, und := w.typeSlots()
	for _, u := range und {
		r.undecided(rule, u, "-", "type slots cannot be enumerated")
	}
	refTables := map[string]bool{}
	nRef := 0
	for _, s := range slots {
		if s.kind == "scalar:int" {
			nRef++
		}
	}
	// the tables the encoder numbers literals in: those updated on a literal path of a writer
	for _, s := range slots {
		if s.kind == "scalar:string" {
			for t := range s.tables {
				refTables[t] = true
			}
		}
	}
	type agg struct {
		ok    bool
		fact  string
		pos   string
		count int
	}
	res := map[string]*agg{}
	for _, s := range slots {
		key := fmt.Sprintf("%s · type slot after %s", s.writer, s.hdr)
		a := res[key]
		if a == nil {
			a = &agg{ok: true, pos: s.pos}
			res[key] = a
		}
		a.count++
		switch {
		case strings.HasPrefix(s.kind, "other:"):
			a.ok = false
			a.fact = "the header is followed by " + strings.TrimPrefix(s.kind, "other:") + " at " + s.pos + ", not by a type (string or int)"
		case s.kind != "scalar:string" && s.kind != "scalar:int":
			a.ok = false
			a.fact = "the type slot carries " + s.kind + " at " + s.pos
		case nRef == 0:
			if a.fact == "" {
				a.fact = "a literal type name on every path; no writer emits a type back-reference, so no numbering has to agree with the decoder's"
			}
		case s.kind == "scalar:string":
			numbered := false
			for t := range s.tables {
				if refTables[t] {
					numbered = true
				}
			}
			if len(s.tables) == 0 || !numbered {
				a.ok = false
				a.fact = "a literal type is written at " + s.pos + " without being numbered, while another type slot emits back-references: the decoder appends EVERY literal type (lists and maps) to one table, so every later reference is shifted"
			} else if a.fact == "" {
				a.fact = "literal types are numbered in " + strings.Join(sortedKeys(s.tables), ",") + " on the path that writes them"
			}
		}
	}
	// the forms of one writer announce the same name: a list must not change its
	// wire type with its length (compact form vs counted form)
	names := map[string]map[string]string{}
	for _, s := range slots {
		if s.kind != "scalar:string" || s.term == "" {
			continue
		}
		if names[s.writer] == nil {
			names[s.writer] = map[string]string{}
		}
		names[s.writer][s.term] = s.hdr + " at " + s.pos
	}
	for wr, m := range names {
		if len(m) > 1 {
			var parts []string
			for t, where := range m {
				parts = append(parts, t+" (after "+where+")")
			}
			sort.Strings(parts)
			key := wr + " · every form announces the same type name"
			res[key] = &agg{ok: false, pos: "-", count: len(m), fact: "the typed forms of one writer write different names: " + strings.Join(parts, "; ") + " — the same Go type goes out under two wire types depending on which form its length selects"}
		}
	}
	var ks []string
	for k := range res {
		ks = append(ks, k)
	}
	sort.Strings(ks)
	for _, k := range ks {
		a := res[k]
		if a.fact == "" {
			a.fact = fmt.Sprintf("%d path(s): back-reference or numbered literal", a.count)
		}
		r.add(rule, k, a.pos, a.ok, a.fact)
	}
	r.floor(rule, len(ks), 3)
}

var frameIDs = regexp.MustCompile(`c[0-9]+/`)
