package main

// Chunk loops of the string / binary decoders over the path explorer.
//
// The decoder is explored path by path with its helpers inlined (so a "read
// the next chunk header" helper is transparent); the length reader
// func(reader, tag byte) (int, error) and the tag sources are kept opaque: each
// call of the length reader yields a fresh symbol, the length of the chunk
// whose header was just read.  A payload read is a call that hands the stream
// and a []byte / []rune buffer to a reader.  On every path, the buffer of each
// payload read must have exactly the length returned by the LATEST length-
// reader call on that path — whatever variable carried it there (a loop-carried
// buffer re-made at the end of the iteration, a buffer made at the top of the
// iteration from a loop-carried length, a helper returning tag and length).

import (
	"fmt"
	"go/types"
	"sort"
	"strings"

	"golang.org/x/tools/go/ssa"
)

// isLengthReaderFn: package function func(reader, tag byte) (int, error).
func (w *World) isLengthReaderFn(sc *ssa.Function) bool {
	if sc == nil || !w.inPkg(sc) {
		return false
	}
	sig := sc.Signature
	return sig.Params().Len() == 2 && sig.Results().Len() == 2 && typeStr(sig.Results().At(0).Type()) == "int" && isErrorType(sig.Results().At(1).Type()) &&
		(typeStr(sig.Params().At(1).Type()) == "byte" || typeStr(sig.Params().At(1).Type()) == "uint8")
}

// isTagSourceFn: package function returning (byte, error).
func (w *World) isTagSourceFn(sc *ssa.Function) bool {
	if sc == nil || !w.inPkg(sc) {
		return false
	}
	r := sc.Signature.Results()
	return r.Len() == 2 && (typeStr(r.At(0).Type()) == "byte" || typeStr(r.At(0).Type()) == "uint8") && isErrorType(r.At(1).Type())
}

// isStreamType: an interface type with a Read, ReadByte or ReadRune method.
func isStreamType(t types.Type) bool {
	it, ok := t.Underlying().(*types.Interface)
	if !ok {
		return false
	}
	for i := 0; i < it.NumMethods(); i++ {
		switch it.Method(i).Name() {
		case "Read", "ReadByte", "ReadRune":
			return true
		}
	}
	return false
}

type chunkRead struct {
	site   string // callee and position
	pos    string
	ord    int // how many length reads precede it on the path
	ok     bool
	fact   string
	callee *ssa.Function // nil for an interface method call
	method string        // interface method called on the stream
	elem   string        // element type of the buffer: byte | rune
	min    string        // for io.ReadAtLeast: whether min is the buffer's length
}

// chunkReads explores dec and returns the verdict of every payload read
// instance on every path.
func (w *World) chunkReads(dec *ssa.Function) ([]chunkRead, bool) {
	var out []chunkRead
	var px *PX
	px = w.newPX(pxHooks{
		inline: func(fr *pxFrame, callee *ssa.Function) bool {
			return !w.isLengthReaderFn(callee) && !w.isTagSourceFn(callee)
		},
		onInstr: func(fr *pxFrame, in ssa.Instruction, st *pxState) bool {
			switch x := in.(type) {
			case *ssa.Call:
				sc := x.Call.StaticCallee()
				if w.isLengthReaderFn(sc) {
					ct := px.term(x, fr, st)
					st.trace = append(st.trace, pxEvent{Kind: "lenread", Call: x, Frame: fr, Extra: fmt.Sprintf("<x#0%s>", ct.key), Pos: w.instrPos(x)})
					return false
				}
				if sc != nil && w.isTagSourceFn(sc) {
					return false
				}
				// a reader call taking the stream and a buffer
				var buf ssa.Value
				stream := false
				if x.Call.IsInvoke() && isStreamType(x.Call.Value.Type()) {
					stream = true
				}
				for _, a := range x.Call.Args {
					switch {
					case isStreamType(a.Type()):
						stream = true
					case isByteSlice(a.Type()) || isRuneSlice(a.Type()):
						buf = a
					}
				}
				if !stream || buf == nil {
					return true // not a payload read (stepped into if it is a helper)
				}
				var last *pxEvent
				ord := 0
				for i := range st.trace {
					if st.trace[i].Kind == "lenread" {
						last = &st.trace[i]
						ord++
					}
				}
				cr := chunkRead{pos: w.instrPos(x), ord: ord, callee: sc, elem: "byte"}
				if isRuneSlice(buf.Type()) {
					cr.elem = "rune"
				}
				if sc != nil {
					cr.site = qualifiedFnName(sc)
				} else {
					cr.method = x.Call.Method.Name()
					cr.site = "(" + typeStr(x.Call.Value.Type()) + ")." + cr.method
				}
				bt := px.term(buf, fr, st)
				if sc != nil && qualifiedFnName(sc) == "io.ReadAtLeast" && len(x.Call.Args) == 3 {
					cr.min = "other"
					if mt := px.term(x.Call.Args[2], fr, st); mt.key == px.lenTerm(bt, tInt).key || (st.vals["mklen:"+bt.key] != nil && st.vals["mklen:"+bt.key].key == mt.key) {
						cr.min = "len"
					}
				}
				var blen *Term
				how := ""
				switch {
				case bt.K == TPure && bt.Name == "view":
					// a re-sliced buffer must fit the storage it is cut from
					root, lo, hi := px.viewParts(bt)
					rl := st.vals["mklen:"+root.key]
					if rl == nil {
						how = "the buffer is a slice of " + root.key + ", whose size is unknown"
						break
					}
					if R := px.linRange(linDiff(px.lin(rl, st), px.lin(hi, st)), st); (R == nil || R.Min().Sign() < 0) && !knownLE(hi, rl, st.env) {
						how = "buffer only re-sliced from an earlier one (cannot grow): a chunk longer than that buffer is truncated or panics"
						break
					}
					blen = subT(hi, lo, tInt)
				default:
					blen = st.vals["mklen:"+bt.key]
					if blen == nil {
						how = "unrecognised buffer source " + bt.key
					}
				}
				switch {
				case how != "":
					cr.fact = how
				case last == nil:
					cr.fact = "payload read before any chunk length was read"
				case blen.key == last.Extra:
					cr.ok = true
					cr.fact = "sized with the chunk length read last on the path"
				default:
					cr.fact = fmt.Sprintf("the buffer has length %s, the chunk length read last on this path (at %s) is %s: a loop-carried buffer keeps the size of an earlier chunk", blen.key, last.Pos, last.Extra)
				}
				out = append(out, cr)
				return false // the reader fills the buffer it is given: checked by the payload-unit rule
			}
			return true
		},
	})
	px.views = true
	px.Run(dec, nil)
	return out, px.Truncated
}

// ruleChunkBuffers.
func (w *World) ruleChunkBuffers(r *Report, rule string) {
	n := 0
	for _, cn := range []string{"string", "binary"} {
		c := w.codecs()[cn]
		if c == nil || c.Dec == nil {
			r.undecided(rule, cn+" decoder", "-", "not found")
			continue
		}
		fn := c.Dec
		r.fnSeen(fnName(fn))
		reads, trunc := w.chunkReadsOf(fn)
		if trunc {
			r.undecided(rule, fnName(fn), w.pos(fn.Pos()), "path exploration exceeded its budget")
			continue
		}
		// aggregate per read site
		type agg struct {
			ok     bool
			facts  []string
			pos    string
			second bool // seen after a second chunk header
		}
		sites := map[string]*agg{}
		var order []string
		for _, cr := range reads {
			k := cr.site + "@" + cr.pos
			a := sites[k]
			if a == nil {
				a = &agg{ok: true, pos: cr.pos}
				sites[k] = a
				order = append(order, k)
			}
			if !cr.ok {
				a.ok = false
			}
			a.facts = append(a.facts, cr.fact)
			if cr.ord >= 2 {
				a.second = true
			}
		}
		sort.Strings(order)
		cnt := map[string]int{}
		looped := false
		for _, k := range order {
			a := sites[k]
			name := k[:strings.Index(k, "@")]
			cnt[name]++
			sort.Strings(a.facts)
			looped = looped || a.second
			r.add(rule, fmt.Sprintf("%s · buffer of payload read #%d %s", fnName(fn), cnt[name], name), a.pos, a.ok, strings.Join(uniq(a.facts), "; "))
		}
		if looped {
			n++
		}
	}
	// one chunk loop per decoder: a payload read reached after a second chunk header
	r.floor(rule, n, 2)
}

// knownLE: the path has decided a comparison that says a <= b.
func knownLE(a, b *Term, env Env) bool {
	is := func(k string, v int64) bool {
		s, ok := env[k]
		return ok && s.Equal(single(v))
	}
	x, y := a.key, b.key
	return is("("+x+" <= "+y+")", 1) || is("("+x+" > "+y+")", 0) || is("("+y+" >= "+x+")", 1) || is("("+y+" < "+x+")", 0) ||
		is("("+x+" < "+y+")", 1) || is("("+y+" > "+x+")", 1) || is("("+x+" == "+y+")", 1) || is("("+y+" == "+x+")", 1)
}

// chunkReadsOf: chunkReads, cached.
func (w *World) chunkReadsOf(fn *ssa.Function) ([]chunkRead, bool) {
	if w.chunkReadCache == nil {
		w.chunkReadCache = map[*ssa.Function][]chunkRead{}
		w.chunkTruncCache = map[*ssa.Function]bool{}
	}
	if reads, have := w.chunkReadCache[fn]; have {
		return reads, w.chunkTruncCache[fn]
	}
	reads, tr := w.chunkReads(fn)
	w.chunkReadCache[fn], w.chunkTruncCache[fn] = reads, tr
	return reads, tr
}
