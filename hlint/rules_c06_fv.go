package main

// Carrier taint (C06.R1/R1b) through function values.
//
// `collectList(who, shape, next, put)` and `mapPairs{read, store}.consume()` hand
// the element source and the store over as function values.  The value stored by
// `put := func(j int, it interface{}) { ary[j] = it }` is a parameter of a
// function literal that is only ever called through a function value: its
// concrete types are those of the argument at the call inside the shared helper,
// and that argument is the result of ANOTHER function value (`next()`).  Which
// source goes with which store is decided per static call site of the helper:
// the site that can hand over this literal as the store also says which
// functions its source parameter / field denotes there (funcValuesOf), and the
// argument's types are computed under that binding.  A context-insensitive union
// would pair the typed reader's raw `d.ReadData` with the untyped reader's store.

import (
	"go/token"

	"golang.org/x/tools/go/ssa"
)

type fvKey struct {
	p     *ssa.Parameter
	field int // -1: the parameter itself is the function value
}

// structParamField: v reads field k of a struct parameter (directly, or through
// the local cell the parameter was spilled to).
func structParamField(v ssa.Value) (*ssa.Parameter, int, bool) {
	switch x := v.(type) {
	case *ssa.Field:
		if p, ok := x.X.(*ssa.Parameter); ok {
			return p, x.Field, true
		}
		if ld, ok := x.X.(*ssa.UnOp); ok && ld.Op == token.MUL {
			if al, ok := ld.X.(*ssa.Alloc); ok {
				if p := spilledParamFV(al); p != nil {
					return p, x.Field, true
				}
			}
		}
	case *ssa.UnOp:
		if x.Op != token.MUL {
			return nil, 0, false
		}
		if fa, ok := x.X.(*ssa.FieldAddr); ok {
			if al, ok := fa.X.(*ssa.Alloc); ok {
				if p := spilledParamFV(al); p != nil {
					return p, fa.Field, true
				}
			}
		}
	}
	return nil, 0, false
}

// spilledParam: the local cell holds a parameter and nothing else is ever
// stored into it or into one of its fields.
func spilledParamFV(al *ssa.Alloc) *ssa.Parameter {
	var p *ssa.Parameter
	refs := al.Referrers()
	if refs == nil {
		return nil
	}
	for _, ref := range *refs {
		switch x := ref.(type) {
		case *ssa.Store:
			if x.Addr != ssa.Value(al) {
				return nil
			}
			q, ok := x.Val.(*ssa.Parameter)
			if !ok || (p != nil && p != q) {
				return nil
			}
			p = q
		case *ssa.FieldAddr:
			if x.Referrers() != nil {
				for _, r2 := range *x.Referrers() {
					if st, ok := r2.(*ssa.Store); ok && st.Addr == ssa.Value(x) {
						return nil
					}
				}
			}
		}
	}
	return p
}

// fvKeyOf: the parameter (or field of a struct parameter) a called function
// value comes from.
func fvKeyOf(v ssa.Value) (fvKey, bool) {
	if p, ok := v.(*ssa.Parameter); ok {
		return fvKey{p, -1}, true
	}
	if p, k, ok := structParamField(v); ok {
		return fvKey{p, k}, true
	}
	return fvKey{}, false
}

func paramIndex(fn *ssa.Function, p *ssa.Parameter) int {
	for i, q := range fn.Params {
		if q == p {
			return i
		}
	}
	return -1
}

// funcValuesAt: the functions key denotes at static call site s of host h
// (ok=false: not statically known).
func (w *World) funcValuesAt(h *ssa.Function, s *ssa.Call, key fvKey) ([]*ssa.Function, bool) {
	qi := paramIndex(h, key.p)
	if qi < 0 || qi >= len(s.Call.Args) {
		return nil, false
	}
	arg := s.Call.Args[qi]
	if key.field < 0 {
		return w.funcValuesOf(arg)
	}
	// a struct built in the caller: the values stored into that field of its cell
	ld, ok := arg.(*ssa.UnOp)
	if !ok || ld.Op != token.MUL {
		return nil, false
	}
	al, ok := ld.X.(*ssa.Alloc)
	if !ok || al.Referrers() == nil {
		return nil, false
	}
	var out []*ssa.Function
	set := map[*ssa.Function]bool{}
	stores := 0
	for _, ref := range *al.Referrers() {
		switch x := ref.(type) {
		case *ssa.FieldAddr:
			if x.Referrers() == nil {
				continue
			}
			for _, r2 := range *x.Referrers() {
				switch y := r2.(type) {
				case *ssa.Store:
					if y.Addr != ssa.Value(x) {
						return nil, false
					}
					if x.Field != key.field {
						continue
					}
					stores++
					fs, ok := w.funcValuesOf(y.Val)
					if !ok {
						return nil, false
					}
					for _, f := range fs {
						if !set[f] {
							set[f] = true
							out = append(out, f)
						}
					}
				case *ssa.UnOp, *ssa.DebugRef:
				default:
					return nil, false
				}
			}
		case *ssa.Store:
			if x.Addr == ssa.Value(al) {
				return nil, false // assigned as a whole: not followed
			}
			return nil, false
		case *ssa.UnOp, *ssa.DebugRef:
		default:
			return nil, false
		}
	}
	return out, stores > 0
}

// paramViaValue: the concrete types of parameter p of a function that is only
// called through function values.
func (tf *typeFlow) paramViaValue(p *ssa.Parameter) (map[string]bool, bool) {
	w := tf.w
	fn := p.Parent()
	if fn == nil || externallyCallable(fn) {
		return nil, false
	}
	pi := paramIndex(fn, p)
	n := w.CG.Nodes[fn]
	if pi < 0 || n == nil || len(n.In) == 0 {
		return nil, false
	}
	if tf.viaBusy == nil {
		tf.viaBusy = map[*ssa.Parameter]bool{}
	}
	if tf.viaBusy[p] {
		return map[string]bool{}, true
	}
	tf.viaBusy[p] = true
	defer delete(tf.viaBusy, p)
	out := map[string]bool{}
	seenSite := map[ssa.CallInstruction]bool{}
	for _, e := range n.In {
		c, ok := e.Site.(*ssa.Call)
		if !ok || c.Call.StaticCallee() != nil || c.Call.IsInvoke() || e.Caller.Func == nil {
			return nil, false // a static call (the summary form applies) or a go/defer
		}
		if seenSite[c] {
			continue
		}
		seenSite[c] = true
		h := e.Caller.Func
		if pi >= len(c.Call.Args) {
			return nil, false
		}
		arg := c.Call.Args[pi]
		key, keyed := fvKeyOf(c.Call.Value)
		callers, static := w.staticCallSitesOf(h)
		if !keyed || !static {
			// no binding to be had: the argument under the call graph's resolution
			for k := range tf.typesOf(arg, h, map[ssa.Value]bool{}) {
				out[k] = true
			}
			continue
		}
		for _, s := range callers {
			here, ok := w.funcValuesAt(h, s, key)
			if ok {
				can := false
				for _, f := range here {
					if f == fn {
						can = true
					}
				}
				if !can {
					continue // this call site never hands over fn here
				}
			}
			// bind every function-valued parameter / field the site determines
			bind := map[fvKey][]*ssa.Function{}
			for _, b := range h.Blocks {
				for _, in := range b.Instrs {
					c2, isC := in.(*ssa.Call)
					if !isC || c2.Call.StaticCallee() != nil || c2.Call.IsInvoke() {
						continue
					}
					if k2, ok := fvKeyOf(c2.Call.Value); ok {
						if fs, ok := w.funcValuesAt(h, s, k2); ok {
							bind[k2] = fs
						}
					}
				}
			}
			old := tf.bind
			tf.bind = bind
			ts := tf.typesOf(arg, h, map[ssa.Value]bool{})
			tf.bind = old
			for k := range ts {
				if len(k) > 6 && k[:6] == "param:" {
					// a parameter of the helper itself: what the site passes for it
					for i, q := range h.Params {
						if "param:"+q.Name() == k && i < len(s.Call.Args) {
							for kk := range tf.typesOf(s.Call.Args[i], s.Parent(), map[ssa.Value]bool{}) {
								out[kk] = true
							}
						}
					}
					continue
				}
				out[k] = true
			}
		}
	}
	return out, true
}

// staticCallSitesOf: the call sites of h, provided all of them are static calls
// inside the package.
func (w *World) staticCallSitesOf(h *ssa.Function) ([]*ssa.Call, bool) {
	if externallyCallable(h) {
		return nil, false
	}
	n := w.CG.Nodes[h]
	if n == nil || len(n.In) == 0 {
		return nil, false
	}
	var out []*ssa.Call
	seen := map[*ssa.Call]bool{}
	for _, e := range n.In {
		c, ok := e.Site.(*ssa.Call)
		if !ok || c.Call.StaticCallee() != h || e.Caller.Func == nil || !w.inPkg(e.Caller.Func) {
			return nil, false
		}
		if !seen[c] {
			seen[c] = true
			out = append(out, c)
		}
	}
	return out, true
}
