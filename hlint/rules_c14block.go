package main

// C14.R5 — nothing on the decode path can block, and a lock taken there is
// released when the decode panics.  Hostile input makes the reflective decoder
// panic (C14.R4 turns that into an error at the entry point), so a panic
// between Lock and a plain Unlock is an expected path: the lock stays held and
// the next decode on the instance never returns.  Hence: every Lock/RLock
// reachable from a decode entry point is paired with a DEFERRED Unlock/RUnlock
// on the same lock in the same function; waiting primitives (WaitGroup.Wait,
// Cond.Wait, blocking channel operations, time.Sleep) do not occur at all.

import (
	"fmt"

	"golang.org/x/tools/go/ssa"
)

func (w *World) ruleDecodeNeverBlocks(r *Report, rule string, reach map[*ssa.Function]bool) {
	n, scanned := 0, 0
	for _, fn := range w.SrcFuncs() {
		if !reach[rootFn(fn)] && !reach[fn] {
			continue
		}
		f := w.flow(fn)
		cnt := 0
		// deferred unlocks of this function, by lock term
		deferred := map[string]bool{}
		for _, b := range fn.Blocks {
			for _, in := range b.Instrs {
				d, ok := in.(*ssa.Defer)
				if !ok {
					continue
				}
				if sc := d.Call.StaticCallee(); sc != nil && sc.Pkg != nil && sc.Pkg.Pkg.Path() == "sync" && (sc.Name() == "Unlock" || sc.Name() == "RUnlock") && len(d.Call.Args) > 0 {
					deferred[sc.Name()+"·"+f.term(d.Call.Args[0]).Key()] = true
				}
			}
		}
		for _, b := range fn.Blocks {
			for _, in := range b.Instrs {
				scanned++
				switch x := in.(type) {
				case *ssa.Call:
					sc := x.Call.StaticCallee()
					if sc == nil || sc.Pkg == nil {
						continue
					}
					name := qualifiedFnName(sc)
					switch {
					case sc.Pkg.Pkg.Path() == "sync" && (sc.Name() == "Lock" || sc.Name() == "RLock") && len(x.Call.Args) > 0:
						n++
						cnt++
						un := map[string]string{"Lock": "Unlock", "RLock": "RUnlock"}[sc.Name()]
						ok := deferred[un+"·"+f.term(x.Call.Args[0]).Key()]
						fact := "released by a deferred " + un + " on the same lock: a decode that panics on hostile input still releases it"
						if !ok {
							fact = "no deferred " + un + " on the same lock in this function: when the decode panics on hostile input (recovered at the entry point) the lock stays held and the next decode on this instance blocks forever"
						}
						r.add(rule, fmt.Sprintf("%s · %s #%d", fnName(fn), name, cnt), w.instrPos(x), ok, fact)
					case sc.Pkg.Pkg.Path() == "sync" && sc.Name() == "Wait", name == "time.Sleep":
						n++
						cnt++
						r.add(rule, fmt.Sprintf("%s · %s #%d", fnName(fn), name, cnt), w.instrPos(x), false, "a waiting primitive on the decode path: whether the call returns depends on another goroutine")
					}
				case *ssa.Send:
					n++
					cnt++
					r.add(rule, fmt.Sprintf("%s · channel send #%d", fnName(fn), cnt), w.instrPos(x), false, "a blocking channel send on the decode path")
				case *ssa.UnOp:
					if x.Op.String() == "<-" {
						n++
						cnt++
						r.add(rule, fmt.Sprintf("%s · channel receive #%d", fnName(fn), cnt), w.instrPos(x), false, "a blocking channel receive on the decode path")
					}
				case *ssa.Select:
					if x.Blocking {
						n++
						cnt++
						r.add(rule, fmt.Sprintf("%s · select #%d", fnName(fn), cnt), w.instrPos(x), false, "a select without default on the decode path")
					}
				}
			}
		}
	}
	if n == 0 {
		o := r.add(rule, "census", "-", true, fmt.Sprintf("%d instructions reachable from the decode entry points scanned: no lock, wait, sleep or blocking channel operation", scanned))
		o.Trivial = true
	}
}
