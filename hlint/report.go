package main

import (
	"crypto/sha256"
	"encoding/json"
	"fmt"
	"os"
	"path/filepath"
	"sort"
	"strings"
	"time"
)

// Obligation is one rule instance.
type Obligation struct {
	Prop    string `json:"property"`
	Rule    string `json:"rule"`   // e.g. "C15.R1 errflow"
	Key     string `json:"key"`    // rule-id · function · construct  (no positions)
	Pos     string `json:"pos"`    // file:line (informational)
	Status  string `json:"status"` // discharged | violated | undecided | known
	Fact    string `json:"fact"`   // what discharged it / what fails
	Trivial bool   `json:"-"`
	Config  string `json:"config,omitempty"`
}

type Report struct {
	Prop      string
	Obls      []*Obligation
	Notes     []string
	Roles     map[string][]string
	Floors    []floorCheck
	Funcs     map[string]bool
	CallSites int
	Assume    []string
	Explain   string
	RuleText  string
	cfg       string
}

type floorCheck struct {
	Name     string
	Got, Min int
}

func newReport(prop string) *Report {
	return &Report{Prop: prop, Roles: map[string][]string{}, Funcs: map[string]bool{}}
}

func (r *Report) add(rule, key, pos string, ok bool, fact string) *Obligation {
	st := "discharged"
	if !ok {
		st = "violated"
	}
	o := &Obligation{Prop: r.Prop, Rule: rule, Key: rule + " · " + key, Pos: pos, Status: st, Fact: fact, Config: r.cfg}
	r.Obls = append(r.Obls, o)
	if pat := os.Getenv("HLINT_OBL"); pat != "" && strings.Contains(o.Key, pat) {
		// developer aid: print every obligation whose key contains $HLINT_OBL
		fmt.Fprintf(os.Stderr, "OBL %s | %s | %s | %s\n", o.Status, o.Key, o.Pos, o.Fact)
	}
	return o
}

func (r *Report) undecided(rule, key, pos, why string) *Obligation {
	o := &Obligation{Prop: r.Prop, Rule: rule, Key: rule + " · " + key, Pos: pos, Status: "undecided", Fact: why, Config: r.cfg}
	r.Obls = append(r.Obls, o)
	return o
}

func (r *Report) note(format string, a ...interface{}) {
	r.Notes = append(r.Notes, fmt.Sprintf(format, a...))
}

func (r *Report) role(name string, members []string) {
	sort.Strings(members)
	r.Roles[name] = members
}

// floor: the number of instances a rule found must not fall below the number
// confirmed by hand (a rule that matches nothing passes vacuously forever).
func (r *Report) floor(name string, got, min int) {
	for i := range r.Floors {
		if r.Floors[i].Name == name {
			if got < r.Floors[i].Got {
				r.Floors[i].Got = got
			}
			return
		}
	}
	r.Floors = append(r.Floors, floorCheck{name, got, min})
}

func (r *Report) fnSeen(name string) { r.Funcs[name] = true }

// ---- known findings ----

type KnownFinding struct {
	Property string `json:"property"`
	Key      string `json:"key"`
	Status   string `json:"status"` // known | fixed
	Commit   string `json:"commit,omitempty"`
	Demo     string `json:"demo"`
	Note     string `json:"note,omitempty"`
}

func loadKnown(path string) ([]KnownFinding, error) {
	b, err := os.ReadFile(path)
	if err != nil {
		if os.IsNotExist(err) {
			return nil, nil
		}
		return nil, err
	}
	var k struct {
		Findings []KnownFinding `json:"findings"`
	}
	if err := json.Unmarshal(b, &k); err != nil {
		return nil, err
	}
	return k.Findings, nil
}

// ---- output ----

type evidence struct {
	PropertyID  string                 `json:"property_id"`
	Tier        string                 `json:"tier"`
	Seed        int                    `json:"seed"`
	Level       string                 `json:"level"`
	Coverage    map[string]interface{} `json:"coverage"`
	Assumptions []string               `json:"assumptions"`
	WallS       float64                `json:"wall_s"`
	Violations  int                    `json:"violations"`
}

func dedupeObls(obls []*Obligation) []*Obligation {
	// the same obligation evaluated under several configurations is one
	// obligation; its status is the worst one seen.
	rank := map[string]int{"discharged": 0, "known": 1, "undecided": 2, "violated": 3}
	by := map[string]*Obligation{}
	var order []string
	for _, o := range obls {
		if p, ok := by[o.Key]; ok {
			if rank[o.Status] > rank[p.Status] {
				c := *o
				by[o.Key] = &c
			} else if o.Config != "" && !strings.Contains(p.Config, o.Config) && rank[o.Status] == rank[p.Status] {
				p.Config += "," + o.Config
			}
			continue
		}
		c := *o
		by[o.Key] = &c
		order = append(order, o.Key)
	}
	var out []*Obligation
	for _, k := range order {
		out = append(out, by[k])
	}
	return out
}

// finish applies the known-findings file, prints the verdict lines, writes
// the evidence file and returns the exit code.
func finish(rep *Report, tier string, seed int, verifDir string, configs []string, started time.Time, evaluations int) int {
	known, err := loadKnown(filepath.Join(verifDir, "known_findings.json"))
	if err != nil {
		fmt.Printf("ERROR known_findings.json: %v\n", err)
		return 2
	}
	obls := dedupeObls(rep.Obls)
	sort.SliceStable(obls, func(i, j int) bool { return obls[i].Key < obls[j].Key })
	knownSet := map[string]KnownFinding{}
	for _, k := range known {
		if k.Property == rep.Prop && k.Status == "known" {
			knownSet[k.Key] = k
		}
	}
	nViol, nKnown, nDis, nUndec := 0, 0, 0, 0
	replayDir := filepath.Join(verifDir, "evidence", "replay")
	os.MkdirAll(replayDir, 0o755)
	// stale replay files of this property are removed first
	if old, _ := filepath.Glob(filepath.Join(replayDir, rep.Prop+"-*.json")); old != nil {
		for _, f := range old {
			os.Remove(f)
		}
	}
	usedKnown := map[string]bool{}
	var lines []string
	for _, o := range obls {
		switch o.Status {
		case "discharged":
			nDis++
		case "violated", "undecided":
			if k, ok := knownSet[o.Key]; ok && o.Status == "violated" {
				o.Status = "known"
				nKnown++
				usedKnown[o.Key] = true
				lines = append(lines, fmt.Sprintf("KNOWN-FINDING: property=%s %s at %s — %s (demo: %s)", rep.Prop, o.Key, o.Pos, o.Fact, k.Demo))
				continue
			}
			if o.Status == "undecided" {
				nUndec++
			}
			nViol++
			h := sha256.Sum256([]byte(o.Key))
			rp := filepath.Join(replayDir, fmt.Sprintf("%s-%x.json", rep.Prop, h[:6]))
			b, _ := json.MarshalIndent(o, "", " ")
			os.WriteFile(rp, b, 0o644)
			lines = append(lines, fmt.Sprintf("%s %s at %s: %s", strings.ToUpper(o.Status), o.Key, o.Pos, o.Fact))
			lines = append(lines, fmt.Sprintf("VIOLATION property=%s replay=%s", rep.Prop, rp))
		}
	}
	for _, fc := range rep.Floors {
		if fc.Got < fc.Min {
			nViol++
			o := &Obligation{Prop: rep.Prop, Rule: "floor", Key: "floor · " + fc.Name, Status: "undecided",
				Fact: fmt.Sprintf("rule instance count %d fell below the confirmed floor %d: the rule no longer sees the constructs it was confirmed on", fc.Got, fc.Min)}
			obls = append(obls, o)
			h := sha256.Sum256([]byte(o.Key))
			rp := filepath.Join(replayDir, fmt.Sprintf("%s-%x.json", rep.Prop, h[:6]))
			b, _ := json.MarshalIndent(o, "", " ")
			os.WriteFile(rp, b, 0o644)
			lines = append(lines, fmt.Sprintf("UNDECIDED %s: %s", o.Key, o.Fact))
			lines = append(lines, fmt.Sprintf("VIOLATION property=%s replay=%s", rep.Prop, rp))
		}
	}
	// summary per rule
	perRule := map[string][4]int{}
	var ruleOrder []string
	for _, o := range obls {
		c, ok := perRule[o.Rule]
		if !ok {
			ruleOrder = append(ruleOrder, o.Rule)
		}
		switch o.Status {
		case "discharged":
			c[0]++
		case "known":
			c[1]++
		case "violated":
			c[2]++
		case "undecided":
			c[3]++
		}
		perRule[o.Rule] = c
	}
	sort.Strings(ruleOrder)
	fmt.Printf("property %s tier=%s configs=%s\n", rep.Prop, tier, strings.Join(configs, " "))
	for _, r := range ruleOrder {
		c := perRule[r]
		fmt.Printf("  %-44s obligations=%d discharged=%d known=%d violated=%d undecided=%d\n", r, c[0]+c[1]+c[2]+c[3], c[0], c[1], c[2], c[3])
	}
	for _, fc := range rep.Floors {
		fmt.Printf("  floor %-38s got=%d min=%d\n", fc.Name, fc.Got, fc.Min)
	}
	for _, n := range rep.Notes {
		fmt.Printf("  note: %s\n", n)
	}
	for _, l := range lines {
		fmt.Println(l)
	}
	// known entries that no longer match anything are reported (not an error)
	for k := range knownSet {
		if !usedKnown[k] {
			fmt.Printf("  note: known finding no longer present on this tree: %s\n", k)
		}
	}

	// evidence
	nontrivial := map[string]bool{}
	var samples []interface{}
	perRuleSample := map[string]int{}
	for _, o := range obls {
		if !o.Trivial {
			nontrivial[o.Key] = true
		}
		if o.Status != "discharged" || perRuleSample[o.Rule] < 3 {
			if len(samples) < 80 {
				samples = append(samples, o)
			}
			perRuleSample[o.Rule]++
		}
	}
	var fns []string
	for f := range rep.Funcs {
		fns = append(fns, f)
	}
	sort.Strings(fns)
	ruleCounts := map[string]interface{}{}
	for r, c := range perRule {
		ruleCounts[r] = map[string]int{"obligations": c[0] + c[1] + c[2] + c[3], "discharged": c[0], "known_findings": c[1], "violated": c[2], "undecided": c[3]}
	}
	floors := []interface{}{}
	for _, fc := range rep.Floors {
		floors = append(floors, map[string]interface{}{"rule": fc.Name, "instances": fc.Got, "floor": fc.Min})
	}
	if evaluations == 0 {
		evaluations = len(rep.Obls)
	}
	ev := evidence{
		PropertyID: rep.Prop, Tier: tier, Seed: seed, Level: "other",
		Coverage: map[string]interface{}{
			"explanation":         rep.Explain,
			"rule":                rep.RuleText,
			"obligations":         len(obls),
			"discharged":          nDis,
			"known_findings":      nKnown,
			"undischarged":        nViol,
			"undecided":           nUndec,
			"evaluations":         evaluations,
			"distinct_nontrivial": len(nontrivial),
			"exhaustive":          true,
			"samples":             samples,
			"per_rule":            ruleCounts,
			"instance_floors":     floors,
			"functions_analysed":  fns,
			"call_sites":          rep.CallSites,
			"roles":               rep.Roles,
			"configs":             configs,
			"notes":               rep.Notes,
			"checker_cmd":         "bin/hlint -property " + rep.Prop + " -tier " + tier,
			"trusted_base":        []string{"go/types type checker", "golang.org/x/tools v0.29.0 go/ssa + callgraph/vta", "the frozen Hessian 2.0 table in hlint/spec.go", "hlint's abstract domains (iset.go, flow.go)"},
		},
		Assumptions: rep.Assume,
		WallS:       time.Since(started).Seconds(),
		Violations:  nViol,
	}
	if ev.Assumptions == nil {
		ev.Assumptions = []string{}
	}
	b, _ := json.MarshalIndent(ev, "", " ")
	evPath := filepath.Join(verifDir, "evidence", rep.Prop+".json")
	os.MkdirAll(filepath.Dir(evPath), 0o755)
	if err := os.WriteFile(evPath, b, 0o644); err != nil {
		fmt.Printf("ERROR writing evidence: %v\n", err)
		return 2
	}
	fmt.Printf("result %s: obligations=%d discharged=%d known=%d undischarged=%d evidence=%s\n", rep.Prop, len(obls), nDis, nKnown, nViol, evPath)
	if nViol > 0 {
		return 1
	}
	return 0
}
