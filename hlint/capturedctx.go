package main

// Call-site context through a captured variable.
//
// `func payload(octets int, …) func(r) … { return func(r) … { buf, err :=
// readBytes(r, octets) … } }`: the size handed to the allocator is a variable
// the function literal captured from its maker.  When that variable is written
// exactly by the stores of the enclosing function (the spill of its parameter,
// plain assignments) and every literal that captures it only reads it, the
// values it can hold are those the enclosing function stores: a parameter
// stands for the arguments at the enclosing function's own call sites
// (`payload(1, …)`, `payload(8, …)`), anything else is evaluated where it is
// stored.  Used by intParamCtx (C14.R2 allocation bound).

import (
	"go/token"

	"golang.org/x/tools/go/ssa"
)

// capturedIntSet: the values the free variable fv of the function literal lit
// can hold, or nil when that cannot be told.
func (w *World) capturedIntSet(lit *ssa.Function, fv *ssa.FreeVar, within map[*ssa.Function]bool, depth int) ISet {
	parent := lit.Parent()
	if parent == nil || depth > 3 {
		return nil
	}
	idx := -1
	for i, v := range lit.FreeVars {
		if v == fv {
			idx = i
		}
	}
	if idx < 0 {
		return nil
	}
	// the cell: the same Alloc of the parent at every site that makes the literal
	var cell *ssa.Alloc
	for _, b := range parent.Blocks {
		for _, in := range b.Instrs {
			mc, ok := in.(*ssa.MakeClosure)
			if !ok || mc.Fn != ssa.Value(lit) || idx >= len(mc.Bindings) {
				continue
			}
			al, ok := mc.Bindings[idx].(*ssa.Alloc)
			if !ok || (cell != nil && cell != al) {
				return nil
			}
			cell = al
		}
	}
	if cell == nil || cell.Referrers() == nil {
		return nil
	}
	var acc ISet
	stores := 0
	for _, ref := range *cell.Referrers() {
		switch x := ref.(type) {
		case *ssa.DebugRef:
		case *ssa.UnOp:
			if x.Op != token.MUL {
				return nil
			}
		case *ssa.MakeClosure:
			// every literal capturing the cell only reads it
			fn, ok := x.Fn.(*ssa.Function)
			if !ok {
				return nil
			}
			for bi, bv := range x.Bindings {
				if bv != ssa.Value(cell) || bi >= len(fn.FreeVars) {
					continue
				}
				rr := fn.FreeVars[bi].Referrers()
				if rr == nil {
					continue
				}
				for _, r := range *rr {
					if ld, ok := r.(*ssa.UnOp); ok && ld.Op == token.MUL {
						continue
					}
					if _, ok := r.(*ssa.DebugRef); ok {
						continue
					}
					return nil
				}
			}
		case *ssa.Store:
			if x.Addr != ssa.Value(cell) {
				return nil // the address is stored somewhere
			}
			stores++
			var s ISet
			if p2, isP := x.Val.(*ssa.Parameter); isP {
				for qi, q := range parent.Params {
					if q == p2 {
						s = w.intParamCtx(parent, qi, within)
					}
				}
			} else if ld, ok := x.Val.(*ssa.UnOp); ok && ld.Op == token.MUL {
				if fv2, ok := ld.X.(*ssa.FreeVar); ok {
					s = w.capturedIntSet(parent, fv2, within, depth+1)
				}
			}
			if s == nil {
				s, _ = w.flow(parent).ValueAt(x.Val, x.Block())
			}
			if s == nil {
				return nil
			}
			acc = acc.Union(s)
		default:
			return nil
		}
	}
	if stores == 0 {
		return nil
	}
	return acc
}
