package main

import (
	"fmt"
	"go/token"
	"go/types"
	"os"
	"sort"

	"golang.org/x/tools/go/ssa"
)

func init() {
	register("C15", rulesC15,
		"Decides (sufficient under the stated assumption): every error and every short count returned by the destination writer reaches the caller of the encode entry point. "+
			"R1: in every package function from which a destination Write is reachable (the write closure, computed from the call graph), every call into the closure and every Write call consumes the error component (forwarded by return, or tested against nil with all paths from the non-nil edge returning a provably non-nil error). "+
			"R2: at every destination Write the count result is compared with the length of the slice written and the short edge returns a non-nil error. "+
			"By induction over the call graph a failing Write at any index k, once or persistently, surfaces as a non-nil error of WriteTo/WriteObject/Encode/ToBytes. "+
			"Not decided: nothing of the property is left to run time; the induction assumes paths with no failing Write need no error.",
		"obligation = one call site (key: function · call#k callee) or one destination Write; enumerated exhaustively from the SSA of every function of the write closure; non-trivial = discharged by a path argument (nil test + all paths from the non-nil edge) rather than by a plain tail-call forward",
		"a path on which no Write call fails needs no error", "the destination honours io.Writer (a panic inside Write is not an error result)")
	register("C13", rulesC13,
		"Decides structural necessary conditions of fail-stop encoding. R1: every call (in functions reachable from the encoder's value dispatch) whose callee can originate or relay a codec error consumes that error (same consumption rule as C15) — a dropped element error is exactly the 'header says 3, two elements follow' corruption. "+
			"R2: in the kind dispatch, every return reachable for an unsupported reflect.Kind (uintptr, complex64/128, chan, func, unsafe pointer — computed by refining the Kind() term along the dispatch) yields a provably non-nil error. "+
			"R3: no panic site on the encode path: single-value type assertions, reflect.Value.Interface() on struct fields not dominated by a CanInterface test, explicit panic, all enumerated over the functions reachable from the encode entry points. "+
			"R4: the count written in a list header and the loop bound are the same term (vv.Len()). "+
			"Does NOT decide: that the bytes emitted for supported values decode to the same value (C01/C02), panics inside package reflect for exotic map keys.",
		"obligation = call site / return of the kind dispatch / panic site / header-count pair, enumerated from SSA; non-trivial = needs a path or interval argument",
		"reflect.Value.Kind() is a pure getter", "reflect.Value.Interface() panics only for values obtained through unexported fields")
}

func (w *World) encoderRoots() []*ssa.Function {
	wd := w.fn("(*Encoder).WriteData")
	if wd == nil {
		return nil
	}
	up := w.canReach(map[*ssa.Function]bool{wd: true})
	var roots []*ssa.Function
	for f := range up {
		if f.Parent() == nil && (token.IsExported(f.Name()) || f == wd) {
			roots = append(roots, f)
		}
	}
	sort.Slice(roots, func(i, j int) bool { return fnName(roots[i]) < fnName(roots[j]) })
	return roots
}

func rulesC15(w *World, r *Report) {
	closure := w.writeClosure()
	leafs := w.leafWrites()
	r.role("write closure", sortedFnNames(closure))
	var leafNames []string
	leafSet := map[*ssa.Call]bool{}
	for _, c := range leafs {
		leafNames = append(leafNames, fnName(c.Parent())+" @"+w.instrPos(c))
		leafSet[c] = true
	}
	r.role("destination writes", leafNames)
	if w.fn("(*Encoder).WriteData") == nil {
		r.undecided("C15.anchor", "(*Encoder).WriteData", "-", "anchor function not found")
		return
	}
	if !closure[w.fn("(*Encoder).WriteData")] {
		r.undecided("C15.anchor", "WriteData not in write closure", "-", "no destination Write is reachable from (*Encoder).WriteData: the leaf-write role was not recognised")
	}
	nSites := 0
	for _, fn := range w.SrcFuncs() {
		if !closure[fn] {
			continue
		}
		r.fnSeen(fnName(fn))
		for _, cs := range w.callSitesIn(fn) {
			r.CallSites++
			relevant := leafSet[cs.call]
			if !relevant {
				for _, cal := range w.calleesOf(cs.call) {
					if closure[cal] && w.inPkg(cal) {
						relevant = true
					}
				}
			}
			if !relevant || errIndex(cs.call.Call.Signature()) < 0 {
				continue
			}
			nSites++
			ok, fact := w.errConsumed(cs.call, errOpts{})
			o := r.add("C15.R1 write-error consumed", fnName(fn)+" · "+cs.key(), w.instrPos(cs.call), ok, fact)
			o.Trivial = ok && len(fact) > 9 && fact[:9] == "forwarded"
		}
	}
	// writers of the library wrapped around the destination (bufio.Writer, a
	// compressor …): their Write / Flush / Close report the destination's failure
	// — possibly much later than the write that caused it — and are destination
	// writes like the leaf itself.  bytes.Buffer and strings.Builder never fail.
	for _, fn := range w.SrcFuncs() {
		if !closure[fn] && !closure[rootFn(fn)] {
			continue
		}
		for _, cs := range w.callSitesIn(fn) {
			sc := cs.call.Call.StaticCallee()
			if sc == nil || w.inPkg(sc) || sc.Signature.Recv() == nil || errIndex(sc.Signature) < 0 {
				continue
			}
			rt := sc.Signature.Recv().Type()
			ts := typeStr(rt)
			if ts == "*bytes.Buffer" || ts == "*strings.Builder" {
				continue
			}
			ms := types.NewMethodSet(rt)
			isWriter := false
			for i := 0; i < ms.Len(); i++ {
				if ms.At(i).Obj().Name() == "Write" {
					if sg, ok := ms.At(i).Type().(*types.Signature); ok && sg.Params().Len() == 1 && sg.Results().Len() == 2 {
						isWriter = true
					}
				}
			}
			if !isWriter {
				continue
			}
			nSites++
			ok, fact := w.errConsumed(cs.call, errOpts{})
			r.add("C15.R1 write-error consumed", fnName(fn)+" · "+cs.key()+" (library writer over the destination)", w.instrPos(cs.call), ok, fact)
		}
	}
	// deferred (and go) calls: the language discards their results, so an error
	// from a write issued in a defer can never reach the caller
	for _, fn := range w.SrcFuncs() {
		if !closure[fn] && !closure[rootFn(fn)] {
			continue
		}
		cnt := 0
		for _, b := range fn.Blocks {
			for _, in := range b.Instrs {
				var com *ssa.CallCommon
				kind := ""
				switch x := in.(type) {
				case *ssa.Defer:
					com, kind = &x.Call, "defer"
				case *ssa.Go:
					com, kind = &x.Call, "go"
				default:
					continue
				}
				relevant := com.IsInvoke() && com.Method.Name() == "Write" && types.TypeString(com.Value.Type(), nil) == "io.Writer"
				name := "dynamic call"
				for _, cal := range w.calleesOf(in.(ssa.CallInstruction)) {
					if cal.Parent() != nil {
						continue // a deferred closure: the calls inside it are ordinary call sites
					}
					if w.inPkg(cal) && closure[cal] {
						relevant = true
						name = fnName(cal)
					}
				}
				if !relevant {
					continue
				}
				cnt++
				nSites++
				r.add("C15.R1 write-error consumed", fmt.Sprintf("%s · %s#%d %s", fnName(fn), kind, cnt, name), w.instrPos(in), false,
					"a call that can write to the destination is issued in a "+kind+" statement: its error (and short count) is discarded by the language and can never surface to the caller")
			}
		}
	}
	r.floor("C15.R1 call sites in the write closure", nSites, 40)
	// R2 short counts
	for _, c := range leafs {
		ok, fact := w.shortCountChecked(c)
		r.add("C15.R2 short count surfaces", fnName(c.Parent())+" · "+w.leafKey(c), w.instrPos(c), ok, fact)
	}
	r.floor("C15.R2 destination writes", len(leafs), 1)
	// R3: the destination writer is used only as the receiver of the checked Write
	wf, _ := w.fieldByType("Encoder", "io.Writer")
	nU := 0
	if wf < 0 {
		r.undecided("C15.R3 the destination writer does not escape", "Encoder writer field", "-", "no unique io.Writer field in Encoder")
	}
	for _, fn := range w.SrcFuncs() {
		cnt := 0
		for _, b := range fn.Blocks {
			for _, in := range b.Instrs {
				ld, ok := in.(*ssa.UnOp)
				if !ok {
					continue
				}
				owner, fld, ok := w.fieldOfLoad(ld)
				if !ok || owner != "Encoder" || fld != wf {
					continue
				}
				for _, ref := range *ld.Referrers() {
					if _, isDbg := ref.(*ssa.DebugRef); isDbg {
						continue
					}
					nU++
					cnt++
					c, isCall := ref.(*ssa.Call)
					okUse := isCall && c.Call.IsInvoke() && c.Call.Value == ssa.Value(ld) && c.Call.Method.Name() == "Write" && leafSet[c]
					okFact := "receiver of the checked Write call"
					if !okUse && w.writerUseChecked(ld, ref, leafSet, map[*ssa.Parameter]bool{}) {
						// handed down to a package function that uses it only as the receiver of a checked Write (rules_writerflow.go)
						okUse, okFact = true, "handed to a package function whose parameter is only the receiver of a checked Write call"
					}
					r.add("C15.R3 the destination writer does not escape", fmt.Sprintf("%s · use #%d of the destination writer", fnName(fn), cnt), w.instrPos(ref), okUse,
						map[bool]string{true: okFact, false: "the destination writer is handed to " + ref.String() + ": writes made there are outside the error/short-count discipline"}[okUse])
				}
			}
		}
	}
	r.floor("C15.R3 uses of the destination writer", nU, 1)
}

func (w *World) leafKey(c *ssa.Call) string {
	for _, cs := range w.callSitesIn(c.Parent()) {
		if cs.call == c {
			return cs.key()
		}
	}
	return "write"
}

// shortCountChecked: the count result of the Write call is compared with
// len(argument) and the short edge returns a non-nil error.
func (w *World) shortCountChecked(c *ssa.Call) (bool, string) {
	var n ssa.Value
	for _, ref := range *c.Referrers() {
		if ex, ok := ref.(*ssa.Extract); ok && ex.Index == 0 {
			n = ex
		}
	}
	if n == nil {
		return false, "the count result of Write is never extracted"
	}
	f := w.flow(c.Parent())
	wantLen := "len(" + f.term(c.Call.Args[0]).Key() + ")"
	for _, ref := range *n.Referrers() {
		bo, ok := ref.(*ssa.BinOp)
		if !ok {
			continue
		}
		nLeft := bo.X == n
		other := bo.Y
		if !nLeft {
			other = bo.X
		}
		if f.term(other).Key() != wantLen {
			continue
		}
		op := bo.Op
		if !nLeft { // len OP n  ⇒  n OP' len
			switch op {
			case token.LSS:
				op = token.GTR
			case token.GTR:
				op = token.LSS
			case token.LEQ:
				op = token.GEQ
			case token.GEQ:
				op = token.LEQ
			}
		}
		for _, rr := range *bo.Referrers() {
			iff, ok := rr.(*ssa.If)
			if !ok {
				continue
			}
			b := iff.Block()
			var short *ssa.BasicBlock
			switch op {
			case token.LSS, token.NEQ: // n < len, n != len : true edge is "short"
				short = b.Succs[0]
			case token.GEQ, token.EQL: // n >= len, n == len : false edge is "short"
				short = b.Succs[1]
			default:
				continue
			}
			ok2, fact := w.pathsSurface(b, short, nil, errOpts{})
			if ok2 {
				// … and the comparison is not bypassed when the writer reported no error: from
				// the Write, following the nil side of every test of its error, no return is
				// reached without passing this comparison
				if by := w.countTestBypassed(c, iff); by != "" {
					return false, "count compared at " + w.instrPos(iff) + " but " + by
				}
				return true, "count compared with " + wantLen + " at " + w.instrPos(iff) + "; " + fact
			}
			return false, "count compared at " + w.instrPos(iff) + " but " + fact
		}
	}
	return false, "the count result is not compared with " + wantLen + " (a short write with a nil error is reported as success)"
}

// ---- C13 ----

var unsupportedKinds = map[int64]string{12: "uintptr", 15: "complex64", 16: "complex128", 18: "chan", 19: "func", 26: "unsafe.Pointer"}

func rulesC13(w *World, r *Report) {
	wd := w.fn("(*Encoder).WriteData")
	if wd == nil {
		r.undecided("C13.anchor", "(*Encoder).WriteData", "-", "anchor function not found")
		return
	}
	// a false hit in the ref table answers a value with a back-reference: its content —
	// and an unrepresentable member in it — is never visited
	{
		reach := w.reachPkg(w.encoderRoots()...)
		w.ruleCommaOkSides(r, "C13.R8 a looked-up name or ordinal is used on the side where the lookup succeeded", 2, func(fn *ssa.Function) bool { return reach[fn] || reach[rootFn(fn)] })
		w.ruleAccessorKinds(r, "C13.R3 reflect accessors on the encode path meet the kind they require", func(fn *ssa.Function) bool { return reach[fn] || reach[rootFn(fn)] })
		w.ruleLoopsProgress(r, "C13.R7 every loop on the encode path makes progress", 6, func(fn *ssa.Function) bool { return reach[fn] || reach[rootFn(fn)] })
	}
	w.ruleRefKeyIdentity(r, "C13.R6 only the same container is answered with a back-reference")
	roots := w.encoderRoots()
	reach := w.reachPkg(roots...)
	r.role("encode entry points", fnNames(roots))
	r.role("functions reachable from the encode entry points", sortedFnNames(reach))

	// origins: functions with a return whose error operand is a boxed concrete error
	origins := map[*ssa.Function]bool{}
	for fn := range reach {
		idx := errIndex(fn.Signature)
		if idx < 0 || fn.Blocks == nil {
			continue
		}
		for _, b := range fn.Blocks {
			if ret, ok := b.Instrs[len(b.Instrs)-1].(*ssa.Return); ok {
				if _, ok := ret.Results[idx].(*ssa.MakeInterface); ok {
					origins[fn] = true
				}
			}
		}
	}
	relay := w.canReach(origins)
	r.role("codec-error origins", sortedFnNames(origins))
	n1 := 0
	for _, fn := range w.SrcFuncs() {
		if !reach[fn] {
			continue
		}
		r.fnSeen(fnName(fn))
		for _, cs := range w.callSitesIn(fn) {
			r.CallSites++
			if errIndex(cs.call.Call.Signature()) < 0 {
				continue
			}
			// the floor counts relay EDGES (site × callee that can relay a codec error): arms of a
			// dispatch merged into one call through a function value (`container(source)` with
			// container ∈ {e.writeList, e.writeMap, e.writeObject}) keep their edges
			rel := 0
			for _, cal := range w.calleesOf(cs.call) {
				if relay[cal] && reach[cal] {
					rel++
				}
			}
			if rel == 0 {
				continue
			}
			n1 += rel
			ok, fact := w.errConsumed(cs.call, errOpts{})
			o := r.add("C13.R1 element error consumed", fnName(fn)+" · "+cs.key(), w.instrPos(cs.call), ok, fact)
			o.Trivial = ok && len(fact) > 9 && fact[:9] == "forwarded"
		}
	}
	r.floor("C13.R1 call sites that can relay a codec error", n1, 15)

	// R2: for every unsupported kind, every path of the value dispatch ends in a
	// non-nil error before anything is written (one exploration per kind)
	{
		var ks []int64
		for k := range unsupportedKinds {
			ks = append(ks, k)
		}
		sort.Slice(ks, func(i, j int) bool { return ks[i] < ks[j] })
		n2 := 0
		for _, k := range ks {
			kr := w.kindRun(wd, k, "enc")
			key := "(*Encoder).WriteData · kind " + unsupportedKinds[k]
			if kr.truncated || len(kr.paths) == 0 {
				r.undecided("C13.R2 unsupported kinds yield an error", key, w.pos(wd.Pos()), fmt.Sprintf("exploration truncated=%v paths=%d", kr.truncated, len(kr.paths)))
				continue
			}
			n2++
			ok2, fact, pos := true, "", w.pos(wd.Pos())
			for _, p := range kr.paths {
				switch {
				case p.Arm != "":
					ok2, fact, pos = false, fmt.Sprintf("a value of kind %s reaches the %s writer at %s", unsupportedKinds[k], p.Arm, p.Pos), p.Pos
				case !p.ErrNonNil:
					ok2, fact, pos = false, fmt.Sprintf("a value of kind %s reaches the return at %s, which can report success", unsupportedKinds[k], p.Pos), p.Pos
				}
				if !ok2 {
					break
				}
			}
			if ok2 {
				fact = fmt.Sprintf("all %d paths for kind %s end in a non-nil error with nothing written", len(kr.paths), unsupportedKinds[k])
			}
			r.add("C13.R2 unsupported kinds yield an error", key, pos, ok2, fact)
		}
		r.floor("C13.R2 unsupported kinds examined", n2, 6)
	}

	// R3: panic sites on the encode path
	n3 := 0
	for _, fn := range w.SrcFuncs() {
		if !reach[fn] {
			continue
		}
		cnt := map[string]int{}
		dom := fn.DomPreorder()
		_ = dom
		for _, b := range fn.Blocks {
			for _, in := range b.Instrs {
				switch x := in.(type) {
				case *ssa.TypeAssert:
					if x.CommaOk {
						continue
					}
					n3++
					nm := "assert " + types.TypeString(x.AssertedType, func(p *types.Package) string { return p.Name() })
					cnt[nm]++
					ok, fact := false, "single-value type assertion panics when the dynamic type differs (a Kind() test does not imply the dynamic type: named types)"
					if mi, isMI := x.X.(*ssa.MakeInterface); isMI && types.Identical(mi.X.Type(), x.AssertedType) {
						ok, fact = true, "operand is boxed from the asserted type in the same function"
					}
					r.add("C13.R3 no panic site on the encode path", fmt.Sprintf("%s · %s#%d", fnName(fn), nm, cnt[nm]), w.instrPos(x), ok, fact)
				case *ssa.Panic:
					n3++
					cnt["panic"]++
					r.add("C13.R3 no panic site on the encode path", fmt.Sprintf("%s · panic#%d", fnName(fn), cnt["panic"]), w.instrPos(x), false, "explicit panic reachable from an encode entry point")
				case *ssa.Call:
					sc := x.Call.StaticCallee()
					if sc == nil || qualifiedFnName(sc) != "(reflect.Value).Interface" || len(x.Call.Args) == 0 {
						continue
					}
					recv, ok := x.Call.Args[0].(*ssa.Call)
					if !ok {
						continue
					}
					rc := recv.Call.StaticCallee()
					if rc == nil || qualifiedFnName(rc) != "(reflect.Value).Field" {
						continue
					}
					n3++
					cnt["Field.Interface"]++
					ok2, fact := w.guardedByCanInterface(recv, x)
					r.add("C13.R3 no panic site on the encode path", fmt.Sprintf("%s · Field(i).Interface()#%d", fnName(fn), cnt["Field.Interface"]), w.instrPos(x), ok2, fact)
				}
			}
		}
	}
	r.floor("C13.R3 panic-site census", n3, 2)

	// R5: a value writer cannot succeed without writing
	w.ruleAlwaysWrites(r, "C13.R5 value writers write or fail")
	w.ruleValuesPerIteration(r, "C13.R5 every element iteration writes")

	// R4: header count = loop bound (list writer)
	w.ruleListCount(r, "C13.R4 declared count = elements written")
}

// ruleAlwaysWrites: for every function of the write closure with an error
// result: every path from entry to a possibly-successful return passes a
// destination write or a call to such a function (greatest fixpoint).
func (w *World) ruleAlwaysWrites(r *Report, rule string) {
	closure := w.writeClosure()
	leaf := map[*ssa.Call]bool{}
	for _, c := range w.leafWrites() {
		leaf[c] = true
	}
	// reported: the functions that stand for one value each (the value
	// dispatch, the container and scalar writers, the byte writers).  Every other
	// function of the write closure takes part in the fixpoint as a candidate
	// (a helper that always writes counts as a write at its call sites) but is
	// not an obligation of its own: an extracted element loop may legitimately
	// write nothing for an empty container, and is covered by the per-iteration
	// rule instead.
	var fns, cands []*ssa.Function
	for _, fn := range w.SrcFuncs() {
		if closure[fn] && errIndex(fn.Signature) >= 0 {
			cands = append(cands, fn)
			if _, isRole := w.writerBoundaries()[fn]; isRole && fn.Signature.Recv() != nil && namedIs(fn.Signature.Recv().Type(), hessianPath, "Encoder") {
				fns = append(fns, fn)
			}
		}
	}
	isFn := map[*ssa.Function]bool{}
	for _, fn := range fns {
		isFn[fn] = true
	}
	aw := map[*ssa.Function]bool{}
	for _, fn := range cands {
		aw[fn] = true
	}
	why := map[*ssa.Function]string{}
	eval := func(fn *ssa.Function) bool {
		f := w.flow(fn)
		ev := map[*ssa.BasicBlock]bool{}
		for _, b := range fn.Blocks {
			for _, in := range b.Instrs {
				c, ok := in.(*ssa.Call)
				if !ok {
					continue
				}
				if leaf[c] {
					ev[b] = true
				}
				if sc := c.Call.StaticCallee(); sc != nil && aw[sc] {
					ev[b] = true
				} else if sc == nil && !c.Call.IsInvoke() {
					// a call through a function value (table entry, method value chosen by a
					// switch): a write when EVERY function the call graph resolves it to
					// (wrappers looked through) is a writer that always writes
					if cs := w.calleesOf(c); len(cs) > 0 {
						all := true
						for _, cal := range cs {
							if !aw[cal] {
								all = false
							}
						}
						if all {
							ev[b] = true
						}
					}
				}
			}
		}
		// paths are walked edge by edge with the error-typed φ-nodes resolved by the
		// edge taken (alwayswrites_paths.go): a single exit `return n, err` fed by a
		// φ of the arms' results is the same as one return per arm
		bad := w.silentSuccessReturn(fn, f, ev)
		if bad == nil {
			return true
		}
		why[fn] = "a return at " + w.instrPos(bad) + " can report success on a path that wrote nothing"
		// the edge-level walk still joins what two helpers returned: a helper's
		// "handled" flag and what the helper wrote are correlated only path by path
		ok2, why2 := w.pxAlwaysWrites(fn, aw, leaf)
		if os.Getenv("HLINT_AWDEBUG") != "" {
			fmt.Fprintf(os.Stderr, "AW %s px=%v %s\n", fnName(fn), ok2, why2)
		}
		if ok2 {
			delete(why, fn)
			return true
		}
		return false
	}
	for changed := true; changed; {
		changed = false
		for _, fn := range cands {
			if aw[fn] && !eval(fn) {
				// the reported writers get a second, path-level look with their helpers
				// stepped into (the block-level walk cannot relate two helpers' results)
				if isFn[fn] {
					if ok, y := w.alwaysWritesPX(fn, aw); ok {
						continue
					} else if y != "" {
						why[fn] = y
					}
				}
				aw[fn] = false
				changed = true
			}
		}
	}
	for _, fn := range fns {
		fact := "every possibly-successful path passes a destination write (directly or through a writer that always writes)"
		if !aw[fn] {
			fact = why[fn] + ": an element can be 'written' as nothing while the header still counts it"
		}
		r.add(rule, fnName(fn), w.pos(fn.Pos()), aw[fn], fact)
	}
	r.floor(rule, len(fns), 10)
}

func fnNames(fs []*ssa.Function) []string {
	var out []string
	for _, f := range fs {
		out = append(out, fnName(f))
	}
	return out
}

// guardedByCanInterface: the Interface() call is dominated by the true edge
// of an If on CanInterface() of the same reflect.Value (same SSA value), or
// by the false edge of an If on `!CanInterface()`.
func (w *World) guardedByCanInterface(field *ssa.Call, use *ssa.Call) (bool, string) {
	for _, ref := range *field.Referrers() {
		c, ok := ref.(*ssa.Call)
		if !ok {
			continue
		}
		sc := c.Call.StaticCallee()
		if sc == nil || qualifiedFnName(sc) != "(reflect.Value).CanInterface" {
			continue
		}
		for _, rr := range *c.Referrers() {
			var iff *ssa.If
			neg := false
			switch y := rr.(type) {
			case *ssa.If:
				iff = y
			case *ssa.UnOp:
				if y.Op == token.NOT {
					for _, r3 := range *y.Referrers() {
						if i2, ok := r3.(*ssa.If); ok {
							iff, neg = i2, true
						}
					}
				}
			}
			if iff == nil {
				continue
			}
			b := iff.Block()
			safe := b.Succs[0]
			if neg {
				safe = b.Succs[1]
			}
			if safe.Dominates(use.Block()) && len(safe.Preds) == 1 {
				return true, "dominated by the CanInterface() test at " + w.instrPos(iff)
			}
		}
	}
	return false, "Interface() on a struct field without a dominating CanInterface() test: panics for an unexported field"
}

// countTestBypassed: a return is reachable from the Write call c along the
// nil side of every test of c's error without passing the If that compares
// the count ("" if not).
func (w *World) countTestBypassed(c *ssa.Call, cnt *ssa.If) string {
	var errV ssa.Value
	idx := errIndex(c.Call.Signature())
	for _, ref := range *c.Referrers() {
		if ex, ok := ref.(*ssa.Extract); ok && ex.Index == idx {
			errV = ex
		}
	}
	seen := map[*ssa.BasicBlock]bool{}
	var bad string
	var walk func(b *ssa.BasicBlock)
	walk = func(b *ssa.BasicBlock) {
		if seen[b] || bad != "" {
			return
		}
		seen[b] = true
		switch t := b.Instrs[len(b.Instrs)-1].(type) {
		case *ssa.Return:
			bad = "the return at " + w.instrPos(t) + " is reachable with a nil writer error without the count having been compared: a short write with a nil error is reported as success"
		case *ssa.If:
			if t == cnt {
				return // the comparison is passed: its two sides are judged separately
			}
			if bo, ok := t.Cond.(*ssa.BinOp); ok && errV != nil && (bo.Op == token.EQL || bo.Op == token.NEQ) {
				other := bo.Y
				if other == errV {
					other = bo.X
				}
				if (bo.X == errV || bo.Y == errV) && isNilConst(other) {
					if bo.Op == token.EQL {
						walk(b.Succs[0])
					} else {
						walk(b.Succs[1])
					}
					return
				}
			}
			for _, s2 := range b.Succs {
				walk(s2)
			}
		default:
			for _, s2 := range b.Succs {
				walk(s2)
			}
		}
	}
	walk(c.Block())
	return bad
}
