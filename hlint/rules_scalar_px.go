package main

// Scalar codec rules on top of the path explorer.

import (
	"fmt"
	"go/token"
	"go/types"
	"math/big"
	"sort"
	"strings"

	"golang.org/x/tools/go/ssa"
)

// termWindow decomposes byte(base >> s) (through conversions whose width
// still contains the window) into (base, s).
func (w *World) termWindow(t *Term) (*Term, int, bool) {
	if t == nil {
		return nil, 0, false
	}
	for t.K == TConv {
		bits, _, ok := intTypeInfo(w, t.T)
		if !ok || bits < 8 {
			return nil, 0, false
		}
		if _, _, isInt := intTypeInfo(w, t.A.T); !isInt {
			break
		}
		t = t.A
	}
	if t.K == TBin && t.Op == token.SHR && t.B.K == TConst && t.B.C.IsInt64() {
		base := t.A
		sh := int(t.B.C.Int64())
		for base.K == TConv {
			bits, _, ok := intTypeInfo(w, base.T)
			if _, _, isInt := intTypeInfo(w, base.A.T); !ok || !isInt || uint(sh+8) > bits {
				break
			}
			base = base.A
		}
		return w.dropHighConst(base, sh), sh, true
	}
	return w.dropHighConst(t, 0), 0, true
}

// dropHighConst: byte((C + x) >> sh) = byte(x >> sh) when C is a multiple of
// 2^(sh+8): the constant does not reach the window (AppendUint16(out,
// uint16(zero)<<8 + uint16(n)) writes byte(n) as its low octet).
func (w *World) dropHighConst(base *Term, sh int) *Term {
	for base != nil && base.K == TBin && base.Op == token.ADD {
		c, x := base.A, base.B
		if c.K != TConst {
			c, x = base.B, base.A
		}
		if c.K != TConst || c.C.Sign() < 0 {
			break
		}
		if bits, _, ok := intTypeInfo(w, base.T); !ok || uint(sh+8) > bits {
			break
		}
		m := new(big.Int).Lsh(one, uint(sh+8))
		if new(big.Int).Mod(c.C, m).Sign() != 0 {
			break
		}
		base = x
		for base.K == TConv {
			bits, _, ok := intTypeInfo(w, base.T)
			if _, _, isInt := intTypeInfo(w, base.A.T); !ok || !isInt || uint(sh+8) > bits {
				break
			}
			base = base.A
		}
	}
	return base
}

// termTagPlus decomposes byte(zero + (base >> s)) (also zero | x).
func (w *World) termTagPlus(t *Term) (int64, *Term, int, bool) {
	if t == nil {
		return 0, nil, 0, false
	}
	for t.K == TConv {
		t = t.A
	}
	// byte((C + x) >> s) with C a multiple of 2^s is byte((C >> s) + (x >> s)): the
	// shift distributes over the sum because nothing carries out of the low s bits
	// (a 16-bit header written at once: uint16(zero)<<8 + uint16(n))
	if t.K == TBin && t.Op == token.SHR && t.B.K == TConst && t.B.C.IsInt64() {
		s := uint(t.B.C.Int64())
		in := t.A
		for in.K == TConv {
			bits, _, ok := intTypeInfo(w, in.T)
			if _, _, isInt := intTypeInfo(w, in.A.T); !ok || !isInt || s+8 > bits {
				break
			}
			in = in.A
		}
		if in.K == TBin && in.Op == token.ADD {
			c, x := in.A, in.B
			if c.K != TConst {
				c, x = in.B, in.A
			}
			bits, _, okT := intTypeInfo(w, in.T)
			if c.K == TConst && c.C.Sign() >= 0 && okT && s+8 <= bits && new(big.Int).Mod(c.C, new(big.Int).Lsh(one, s)).Sign() == 0 {
				for x.K == TConv {
					xb, _, ok := intTypeInfo(w, x.T)
					if _, _, isInt := intTypeInfo(w, x.A.T); !ok || !isInt || s+8 > xb {
						break
					}
					x = x.A
				}
				zero := new(big.Int).Rsh(c.C, s)
				zero.And(zero, big.NewInt(255))
				return zero.Int64(), x, int(s), true
			}
		}
	}
	if t.K != TBin || (t.Op != token.ADD && t.Op != token.OR) {
		return 0, nil, 0, false
	}
	c, x := t.A, t.B
	if c.K != TConst {
		c, x = t.B, t.A
	}
	for c.K == TConv && c.A.K == TConst {
		c = c.A
	}
	if c.K != TConst || !c.C.IsInt64() {
		return 0, nil, 0, false
	}
	for x.K == TConv {
		x = x.A
	}
	if x.K == TBin && x.Op == token.SHR && x.B.K == TConst {
		b := x.A
		for b.K == TConv {
			if _, _, isInt := intTypeInfo(w, b.A.T); !isInt {
				break
			}
			b = b.A
		}
		return c.C.Int64(), b, int(x.B.C.Int64()), true
	}
	return c.C.Int64(), x, 0, true
}

func stripConv(w *World, t *Term) *Term {
	for t != nil && t.K == TConv {
		if _, _, isInt := intTypeInfo(w, t.A.T); !isInt {
			break
		}
		t = t.A
	}
	return t
}

type encInfo struct {
	forms []*PForm
	px    *PX
}

func (w *World) encForms(fn *ssa.Function) *encInfo {
	if w.encCache == nil {
		w.encCache = map[*ssa.Function]*encInfo{}
	}
	if e, ok := w.encCache[fn]; ok {
		return e
	}
	forms, px := w.pxEncForms(fn)
	e := &encInfo{forms, px}
	w.encCache[fn] = e
	return e
}

type decTab struct {
	w    *World
	fn   *ssa.Function
	done [256]bool
	runs [256]tagRun
}

func (d *decTab) at(t int) tagRun {
	if !d.done[t] {
		d.runs[t] = d.w.pxDecodeTag(d.fn, t)
		d.done[t] = true
	}
	return d.runs[t]
}

func (w *World) decTable(fn *ssa.Function) *decTab {
	if w.decCache == nil {
		w.decCache = map[*ssa.Function]*decTab{}
	}
	if t, ok := w.decCache[fn]; ok {
		return t
	}
	t := &decTab{w: w, fn: fn}
	w.decCache[fn] = t
	return t
}

// ruleNumEncoder: int / long encoders (see DESIGN C07.R1/R2).
func (w *World) ruleNumEncoder(r *Report, rulePart, ruleTag, cname string, spec []specNum) {
	c := w.codecs()[cname]
	if c == nil || c.Enc == nil {
		r.undecided(rulePart, cname+" encoder", "-", "no package function func("+cname+"-type) []byte found")
		return
	}
	fn := c.Enc
	r.fnSeen(fnName(fn))
	ei := w.encForms(fn)
	if ei.px.Truncated {
		r.undecided(rulePart, fnName(fn), w.pos(fn.Pos()), "path exploration exceeded its budget")
		return
	}
	pk := &Term{K: TLeaf, V: fn.Params[0], T: fn.Params[0].Type(), key: "<p:" + fn.Params[0].Name() + ">"}
	top, _ := typeRange(w, fn.Params[0].Type())
	var union ISet
	byN := map[int]*PForm{}
	nForms := 0
	for _, fm := range ei.forms {
		if fm.IsErr {
			r.add(rulePart, fnName(fn)+" · error return", fm.Pos, false, "the "+cname+" encoder has an error return: not every value encodes")
			continue
		}
		if fm.Unknown || fm.Open || fm.IsNil || len(fm.Oct) == 0 {
			r.undecided(rulePart, fnName(fn)+" · return at "+fm.Pos, fm.Pos, "the returned byte slice could not be modelled")
			continue
		}
		nForms++
		n := len(fm.Oct)
		key := fmt.Sprintf("%s · form of %d octet(s)", fnName(fn), n)
		D, _ := ei.px.evalOver(fm, pk)
		if prev, dup := byN[n]; dup {
			// two syntactic forms with the same octet count: they must be the same wire form
			_ = prev
			key += " (second)"
		}
		byN[n] = fm
		if !union.Intersect(D).Empty() {
			r.add(rulePart, key+" · disjoint", fm.Pos, false, "input set "+D.String()+" overlaps another form")
		}
		union = union.Union(D)
		var sf *specNum
		var shorter ISet
		for i := range spec {
			if spec[i].Octets == n {
				sf = &spec[i]
			} else if spec[i].Octets < n {
				shorter = shorter.Union(mkSet(spec[i].Lo, spec[i].Hi))
			}
		}
		if sf == nil {
			r.add(rulePart, key, fm.Pos, false, fmt.Sprintf("the specification has no %s form of %d octets", cname, n))
			continue
		}
		want := mkSet(sf.Lo, sf.Hi).Intersect(top).Minus(shorter)
		r.add(rulePart, key, fm.Pos, D.Equal(want), fmt.Sprintf("inputs reaching the form D=%s; shortest-form range for %d octets = %s", D, n, want))

		tagSet, _ := ei.px.evalOver(fm, fm.Oct[0])
		wantTags := specTags(cname, sf.Form)
		okTag := tagSet != nil && tagSet.Hull().Equal(wantTags)
		fact := fmt.Sprintf("first octet over D = %s, spec %s", tagSet.HexString(), wantTags.HexString())
		if sf.Zero >= 0 {
			zero, base, sh, ok := w.termTagPlus(fm.Oct[0])
			if !ok || zero != int64(sf.Zero) || base.Key() != pk.Key() || sh != 8*(n-1) {
				// accept any expression whose value set is right AND which is affine in the high bits:
				// checked semantically at the interval ends
				if !w.tagAffine(ei.px, fm, pk, int64(sf.Zero), 8*(n-1)) {
					okTag = false
					fact += fmt.Sprintf("; first octet is not %#x + (value >> %d)", sf.Zero, 8*(n-1))
				}
			} else {
				fact += fmt.Sprintf("; tag = %#x + (value >> %d)", zero, sh)
			}
		} else {
			ts, _ := ei.px.evalOver(fm, fm.Oct[0])
			if ts == nil || !ts.Equal(single(wantTags.Min().Int64())) {
				okTag = false
				fact += "; first octet is not the constant tag"
			}
			if !D.SubsetOf(bitsRange(uint(8 * (n - 1)))) {
				okTag = false
				fact += fmt.Sprintf("; D does not fit %d bits", 8*(n-1))
			}
		}
		for i := 1; i < n; i++ {
			base, sh, ok := w.termWindow(fm.Oct[i])
			if !ok || base.Key() != pk.Key() || sh != 8*(n-1-i) {
				okTag = false
				fact += fmt.Sprintf("; octet %d is not byte(value >> %d)", i, 8*(n-1-i))
			}
		}
		r.add(ruleTag, key, fm.Pos, okTag, fact)
	}
	r.add(rulePart, fnName(fn)+" · forms cover the type", w.pos(fn.Pos()), union.Equal(top), fmt.Sprintf("union of form inputs = %s, type range = %s", union, top))
	r.floor(rulePart+" ("+cname+")", nForms, len(spec))
}

// tagAffine: the first octet equals zero + (value >> shift) at both ends of
// every interval of D (a monotone affine map is determined by that).
func (w *World) tagAffine(px *PX, fm *PForm, pk *Term, zero int64, shift int) bool {
	for _, env := range fm.Envs {
		px.cur = &pxState{env: env}
		D, _ := px.f.Eval(pk, env)
		if D == nil {
			return false
		}
		for _, iv := range D {
			for _, x := range []int64{iv.Lo.Int64(), iv.Hi.Int64()} {
				e2 := env.clone()
				e2[pk.Key()] = single(x)
				got, _ := px.f.Eval(fm.Oct[0], e2)
				if got == nil || !got.Equal(single(zero+(x>>uint(shift)))) {
					return false
				}
			}
		}
	}
	return true
}

// ruleDecoderForms: every tag of every spec form reaches a nil-error return
// after exactly the form's payload (decoder explored once per tag).
func (w *World) ruleDecoderForms(r *Report, rule, cname string) {
	c := w.codecs()[cname]
	if c == nil || c.Dec == nil {
		r.undecided(rule, cname+" decoder", "-", "no package function func(ByteRuneReader,int32)(T,error) found for "+cname)
		return
	}
	fn := c.Dec
	r.fnSeen(fnName(fn))
	tbl := w.decTable(fn)
	n := 0
	for _, sf := range specForms {
		if sf.Prod != cname || sf.Payload < 0 {
			continue
		}
		n++
		ok := true
		var facts []string
		for t := sf.Lo; t <= sf.Hi && len(facts) < 4; t++ {
			run := tbl.at(int(t))
			switch {
			case run.Rejected && !run.OK:
				ok = false
				facts = append(facts, fmt.Sprintf("tag x%02x is rejected (error return at %s)", t, run.Pos))
			case !run.OK:
				ok = false
				facts = append(facts, fmt.Sprintf("tag x%02x reaches no successful return", t))
			case run.Short:
				ok = false
				facts = append(facts, fmt.Sprintf("tag x%02x: the payload is pulled with a read that may return fewer octets than asked (not io.ReadFull)", t))
			case run.Unknown || run.Mixed || run.Payload != sf.Payload:
				ok = false
				facts = append(facts, fmt.Sprintf("tag x%02x pulls %d octets (return at %s), spec %d", t, run.Payload, run.Pos, sf.Payload))
			}
		}
		fact := fmt.Sprintf("tags x%02x-x%02x each reach a nil-error return after %d payload octet(s)", sf.Lo, sf.Hi, sf.Payload)
		if !ok {
			fact = strings.Join(facts, "; ")
		}
		r.add(rule, fmt.Sprintf("%s · spec form %s/%s", fnName(fn), sf.Prod, sf.Form), w.pos(fn.Pos()), ok, fact)
	}
	r.floor(rule+" ("+cname+")", n, 1)
}

// rulePairOctets: encoder octets = decoder octets, per first octet.
func (w *World) rulePairOctets(r *Report, rule, cname string) {
	c := w.codecs()[cname]
	if c == nil || c.Enc == nil || c.Dec == nil {
		r.undecided(rule, cname+" codec pair", "-", "encoder or decoder not found")
		return
	}
	ei := w.encForms(c.Enc)
	tbl := w.decTable(c.Dec)
	n := 0
	for _, fm := range ei.forms {
		if fm.IsErr || fm.Unknown || fm.IsNil || len(fm.Oct) == 0 || fm.Open {
			continue
		}
		ts, _ := ei.px.evalOver(fm, fm.Oct[0])
		if ts != nil && ts.Equal(single('N')) {
			continue
		}
		n++
		key := fmt.Sprintf("%s form of %d octet(s) ↔ %s", fnName(c.Enc), len(fm.Oct), fnName(c.Dec))
		tags, small := ts.Elems(256)
		if ts == nil || !small {
			r.undecided(rule, key, fm.Pos, "first octet set not bounded")
			continue
		}
		ok := true
		fact := fmt.Sprintf("first octets %s: decoder pulls %d octet(s) = form length - 1", ts.HexString(), len(fm.Oct)-1)
		for _, t := range tags {
			run := tbl.at(int(t))
			if !run.OK {
				ok, fact = false, fmt.Sprintf("first octet x%02x emitted by the encoder is not accepted by the decoder", t)
				break
			}
			if run.Unknown || run.Short || run.Mixed || run.Payload != len(fm.Oct)-1 {
				ok, fact = false, fmt.Sprintf("first octet x%02x: encoder writes %d more octets, decoder pulls %d (return at %s)", t, len(fm.Oct)-1, run.Payload, run.Pos)
				break
			}
		}
		r.add(rule, key, fm.Pos, ok, fact)
	}
	r.floor(rule+" ("+cname+")", n, 2)
}

// ---- double ----

func (w *World) ruleDoubleEncoder(r *Report, ruleTotal, ruleForms string) {
	c := w.codecs()["double"]
	if c == nil || c.Enc == nil {
		r.undecided(ruleForms, "double encoder", "-", "not found")
		return
	}
	fn := c.Enc
	r.fnSeen(fnName(fn))
	ei := w.encForms(fn)
	if ei.px.Truncated {
		r.undecided(ruleForms, fnName(fn), w.pos(fn.Pos()), "path exploration exceeded its budget")
		return
	}
	pv := "<p:" + fn.Params[0].Name() + ">"
	ivKey := "conv:int64(" + pv + ")"
	ivTerm := &Term{K: TConv, T: types.Typ[types.Int64], A: &Term{K: TLeaf, T: fn.Params[0].Type(), key: pv}, key: ivKey}
	guard := func(env Env, inner string) (val int, known bool) {
		// truth of  conv:float64(inner) == v  on this path
		for _, k := range []string{"(conv:float64(" + inner + ") == " + pv + ")", "(" + pv + " == conv:float64(" + inner + "))"} {
			if s, ok := env[k]; ok && s.Card().Cmp(one) == 0 {
				return int(s.Min().Int64()), true
			}
		}
		for _, k := range []string{"(conv:float64(" + inner + ") != " + pv + ")", "(" + pv + " != conv:float64(" + inner + "))"} {
			if s, ok := env[k]; ok && s.Card().Cmp(one) == 0 {
				return 1 - int(s.Min().Int64()), true
			}
		}
		return 0, false
	}
	nErr := 0
	for _, fm := range ei.forms {
		if fm.IsErr {
			nErr++
			r.add(ruleTotal, fmt.Sprintf("%s · error return #%d", fnName(fn), nErr), fm.Pos, false, "a float64 reaches an error return: not every double encodes")
		}
	}
	if nErr == 0 {
		r.add(ruleTotal, fnName(fn)+" · no feasible error return", w.pos(fn.Pos()), true, fmt.Sprintf("%d forms, none with a non-nil error", len(ei.forms)))
	}
	var unionInt ISet
	n := 0
	for _, fm := range ei.forms {
		if fm.IsErr {
			continue
		}
		if fm.Unknown || fm.Open || len(fm.Oct) == 0 {
			r.undecided(ruleForms, fnName(fn)+" · return at "+fm.Pos, fm.Pos, "the returned byte slice could not be modelled")
			continue
		}
		n++
		ts, _ := ei.px.evalOver(fm, fm.Oct[0])
		if ts == nil || ts.Card().Cmp(one) != 0 {
			r.add(ruleForms, fmt.Sprintf("%s · form at %s", fnName(fn), fm.Pos), fm.Pos, false, "first octet is not a constant tag")
			continue
		}
		tag := int(ts.Min().Int64())
		sf := specByTag[tag]
		key := fmt.Sprintf("%s · form x%02x", fnName(fn), tag)
		if sf.Prod != "double" {
			r.add(ruleForms, key, fm.Pos, false, fmt.Sprintf("tag x%02x is %s in the specification, not double", tag, sf.Prod))
			continue
		}
		if len(fm.Oct) != sf.Payload+1 {
			r.add(ruleForms, key, fm.Pos, false, fmt.Sprintf("form has %d octets, spec %d", len(fm.Oct), sf.Payload+1))
			continue
		}
		ok := true
		var fact string
		switch sf.Form {
		case "zero", "one", "double2", "double3":
			var D ISet
			for _, env := range fm.Envs {
				if g, known := guard(env, ivKey); !known || g != 1 {
					ok = false
					fact = "integral form reachable without the guard float64(int64(v)) == v"
				}
				ei.px.cur = &pxState{env: env}
				s, _ := ei.px.f.Eval(ivTerm, env)
				D = D.Union(s)
			}
			if !ok {
				break
			}
			unionInt = unionInt.Union(D)
			var want ISet
			for _, sn := range specDoubleIntegral {
				if sn.Form == sf.Form {
					want = mkSet(sn.Lo, sn.Hi)
					for _, sm := range specDoubleIntegral {
						if sm.Octets < sn.Octets {
							want = want.Minus(mkSet(sm.Lo, sm.Hi))
						}
					}
				}
			}
			ok = D.Equal(want)
			fact = fmt.Sprintf("integral inputs reaching the form = %s; shortest exact form range = %s", D, want)
			for i := 1; i < len(fm.Oct); i++ {
				base, sh, wok := w.termWindow(fm.Oct[i])
				if !wok || base.Key() != ivKey || sh != 8*(len(fm.Oct)-1-i) {
					ok = false
					fact += fmt.Sprintf("; octet %d is not byte(int64(v) >> %d)", i, 8*(len(fm.Oct)-1-i))
				}
			}
		case "double5", "double9":
			wantFn := "math.Float32bits"
			if sf.Form == "double9" {
				wantFn = "math.Float64bits"
			}
			fact = "octets are the big-endian windows of " + wantFn
			for i := 1; i < len(fm.Oct); i++ {
				base, sh, wok := w.termWindow(fm.Oct[i])
				if !wok || sh != 8*(len(fm.Oct)-1-i) {
					ok = false
					fact = fmt.Sprintf("octet %d is not a window of shift %d", i, 8*(len(fm.Oct)-1-i))
					break
				}
				base = stripConv(w, base)
				call, isCall := base.V.(*ssa.Call)
				if !isCall || call.Call.StaticCallee() == nil || qualifiedFnName(call.Call.StaticCallee()) != wantFn {
					ok = false
					fact = fmt.Sprintf("octet %d is not taken from %s(...)", i, wantFn)
					break
				}
			}
			if sf.Form == "double5" {
				for _, env := range fm.Envs {
					if g, known := guard(env, "conv:float32("+pv+")"); !known || g != 1 {
						ok, fact = false, "the 4-octet form is reachable without the guard float64(float32(v)) == v"
					}
				}
			}
		}
		r.add(ruleForms, key, fm.Pos, ok, fact)
	}
	want := mkSet(-32768, 32767)
	r.add(ruleForms, fnName(fn)+" · integral forms cover [-32768,32767]", w.pos(fn.Pos()), unionInt.Equal(want), fmt.Sprintf("union of integral form inputs = %s", unionInt))
	r.floor(ruleForms, n, 6)
}

// ---- date ----

func dateUnitOf(w *World, base *Term, pd string) string {
	inner := stripConv(w, base)
	switch inner.Key() {
	case "pure:(time.Time).UnixMilli(" + pd + ")", "(pure:(time.Time).UnixNano(" + pd + ") / 1000000)":
		return "milliseconds"
	case "pure:(time.Time).Unix(" + pd + ")":
		return "seconds"
	case "(pure:(time.Time).Unix(" + pd + ") / 60)":
		return "minutes"
	}
	return ""
}

func (w *World) dateEncoderForms(r *Report, ruleExact, ruleWin, ruleZero string, specUnit bool, ruleSpec string) {
	c := w.codecs()["date"]
	if c == nil || c.Enc == nil {
		r.undecided(ruleWin, "date encoder", "-", "not found")
		return
	}
	fn := c.Enc
	r.fnSeen(fnName(fn))
	ei := w.encForms(fn)
	pd := "<p:" + fn.Params[0].Name() + ">"
	n := 0
	for _, fm := range ei.forms {
		if fm.IsErr || fm.Unknown || len(fm.Oct) == 0 {
			if fm.Unknown {
				r.undecided(ruleWin, fnName(fn)+" · return at "+fm.Pos, fm.Pos, "the returned byte slice could not be modelled")
			}
			continue
		}
		ts, _ := ei.px.evalOver(fm, fm.Oct[0])
		if ts == nil || ts.Card().Cmp(one) != 0 {
			r.add(ruleWin, fmt.Sprintf("%s · form at %s", fnName(fn), fm.Pos), fm.Pos, false, "first octet is not a constant tag")
			continue
		}
		n++
		tag := int(ts.Min().Int64())
		key := fmt.Sprintf("%s · form x%02x", fnName(fn), tag)
		switch tag {
		case 'N':
			if ruleZero == "" {
				continue
			}
			ok := len(fm.Oct) == 1
			for _, env := range fm.Envs {
				if s, has := env["pure:(time.Time).IsZero("+pd+")"]; !has || !s.Equal(single(1)) {
					// recorded as a condition outcome
					ok = false
				}
			}
			r.add(ruleZero, key, fm.Pos, ok, "the null form is emitted exactly under date.IsZero()")
		case 0x4a, 0x4b:
			sf := specByTag[tag]
			if len(fm.Oct) != sf.Payload+1 {
				r.add(ruleWin, key, fm.Pos, false, fmt.Sprintf("form has %d octets, spec %d", len(fm.Oct), sf.Payload+1))
				continue
			}
			ok := true
			var base *Term
			for i := 1; i < len(fm.Oct); i++ {
				b, sh, wok := w.termWindow(fm.Oct[i])
				if !wok || sh != 8*(len(fm.Oct)-1-i) || (base != nil && stripConv(w, b).Key() != stripConv(w, base).Key()) {
					ok = false
					break
				}
				base = b
			}
			if !ok {
				r.add(ruleWin, key, fm.Pos, false, "payload octets are not the big-endian windows of one value")
				continue
			}
			V, _ := ei.px.evalOver(fm, stripConv(w, base))
			fits := V != nil && V.SubsetOf(bitsRange(uint(8*sf.Payload)))
			unit := dateUnitOf(w, base, pd)
			fact := fmt.Sprintf("%d octets of %s ∈ %s (unit: %s)", sf.Payload, stripConv(w, base).Key(), V, unit)
			okWin := fits && unit != ""
			if tag == 0x4a && unit != "milliseconds" {
				okWin = false
				fact += "; the 8-octet form must carry the millisecond instant"
			}
			if !fits {
				fact += fmt.Sprintf("; the value is not proven to fit %d bits: high bits are silently dropped", 8*sf.Payload)
			}
			r.add(ruleWin, key, fm.Pos, okWin, fact)
			if tag == 0x4b {
				exact := true
				var seen []string
				for _, env := range fm.Envs {
					pathExact := false
					for _, cand := range []string{"pure:(time.Time).Nanosecond(" + pd + ")", "(pure:(time.Time).UnixNano(" + pd + ") % 1000000000)", "(pure:(time.Time).UnixMilli(" + pd + ") % 1000)"} {
						if s, has := env[cand]; has {
							seen = append(seen, cand+" ∈ "+s.String())
							if s.Equal(single(0)) {
								pathExact = true
							}
						}
					}
					if !pathExact {
						exact = false
					}
				}
				sort.Strings(seen)
				seen = uniq(seen)
				fe := "sub-second part proven {0} on every path to the compact form: " + strings.Join(seen, ", ")
				if !exact {
					fe = "the compact form is reachable with a non-zero sub-second part (" + strings.Join(seen, ", ") + "): the fraction is lost"
					if len(seen) == 0 {
						fe = "no guard constrains the sub-second part before the compact form"
					}
				}
				r.add(ruleExact, key, fm.Pos, exact, fe)
				if specUnit {
					r.add(ruleSpec, key+" · unit", fm.Pos, unit == "minutes", "x4b carries "+unit+"; the grammar defines x4b as a 32-bit count of MINUTES since the epoch")
				}
			}
		default:
			r.add(ruleWin, key, fm.Pos, false, fmt.Sprintf("tag x%02x is not a date form", tag))
		}
	}
	r.floor(ruleWin+" (date forms)", n, 3)
}

// decoderDateUnit: the unit in which the date decoder interprets tag t.
func (w *World) decoderDateUnit(dec *ssa.Function, t int) (string, string) {
	run := w.decTable(dec).at(t)
	if !run.OK || run.Ret == nil {
		return "?", "-"
	}
	unit := "?"
	// the constructor the returned time comes from ON THIS PATH (the operand of the
	// return may be a φ of a named result: the recorded call behind its term decides)
	org := run.Origin
	if org == nil && run.State != nil {
		org = run.State.originOf(run.Result)
	}
	if org != nil {
		switch callName(org) {
		case "time.UnixMilli":
			unit = "milliseconds"
		case "time.Unix":
			unit = "seconds"
			if len(org.Args) == 2 {
				if k := org.Args[1]; k.K != TConst || k.C.Sign() != 0 {
					unit = "nanoseconds-scaled"
				}
				tt := org.Args[0]
				for tt.K == TConv {
					tt = tt.A
				}
				if tt.K == TBin && tt.Op == token.MUL && tt.B.K == TConst && tt.B.C.IsInt64() && tt.B.C.Int64() == 60 {
					unit = "minutes"
				}
			}
		}
	}
	return unit, run.Pos
}

func (w *World) ruleDateUnits(r *Report, rule string) {
	c := w.codecs()["date"]
	if c == nil || c.Dec == nil || c.Enc == nil {
		r.undecided(rule, "date codec", "-", "not found")
		return
	}
	ei := w.encForms(c.Enc)
	pd := "<p:" + c.Enc.Params[0].Name() + ">"
	n := 0
	for _, fm := range ei.forms {
		if len(fm.Oct) < 2 || fm.IsErr {
			continue
		}
		ts, _ := ei.px.evalOver(fm, fm.Oct[0])
		if ts == nil || ts.Card().Cmp(one) != 0 {
			continue
		}
		t := int(ts.Min().Int64())
		b, _, ok := w.termWindow(fm.Oct[len(fm.Oct)-1])
		if !ok {
			continue
		}
		eu := dateUnitOf(w, b, pd)
		du, pos := w.decoderDateUnit(c.Dec, t)
		n++
		r.add(rule, fmt.Sprintf("date form x%02x", t), pos, eu != "" && eu == du, fmt.Sprintf("encoder writes %s, decoder rebuilds the time from %s", eu, du))
	}
	r.floor(rule, n, 2)
}

// ruleLenReader: the length readers per spec form.
func (w *World) ruleLenReader(r *Report, rule, cname string) {
	c := w.codecs()[cname]
	if c == nil || c.Dec == nil {
		r.undecided(rule, cname+" decoder", "-", "not found")
		return
	}
	lr := w.lengthReader(c.Dec)
	if lr == nil {
		r.undecided(rule, fnName(c.Dec)+" · length reader", "-", "no callee of shape func(ByteRuneReader, byte) (int, error)")
		return
	}
	r.fnSeen(fnName(lr))
	tbl := w.decTable(lr)
	n := 0
	for _, sl := range specLens {
		if sl.Prod != cname {
			continue
		}
		tags := specTags(cname, sl.Form)
		key := fmt.Sprintf("%s · spec form %s/%s", fnName(lr), cname, sl.Form)
		n++
		ok := true
		fact := ""
		ts, _ := tags.Elems(256)
		for _, t := range ts {
			run := tbl.at(int(t))
			if !run.OK {
				ok, fact = false, fmt.Sprintf("tag x%02x is not accepted by the length reader", t)
				break
			}
			if run.Payload != sl.HdrOctets || run.Unknown || run.Short || run.Mixed {
				ok, fact = false, fmt.Sprintf("tag x%02x: %d header octets pulled, spec %d", t, run.Payload, sl.HdrOctets)
				break
			}
			px := w.newPX(pxHooks{})
			L, _ := px.evalTerm(run.Result, &pxState{env: run.Env})
			want := mkSet(sl.Lo, sl.Hi)
			if L == nil || !L.SubsetOf(want) {
				ok, fact = false, fmt.Sprintf("tag x%02x: length computed ∈ %s, spec range %s", t, L, want)
				break
			}
			fact = fmt.Sprintf("tags %s: %d header octet(s), length ∈ %s ⊆ %s", tags.HexString(), sl.HdrOctets, L, want)
		}
		r.add(rule, key, w.pos(lr.Pos()), ok, fact)
	}
	r.floor(rule+" ("+cname+")", n, 4)
}

// lengthReader: the callee (transitively, within the package) of the decoder
// with signature (ByteRuneReader, byte) (int, error).
func (w *World) lengthReader(dec *ssa.Function) *ssa.Function {
	for f := range w.reachPkg(dec) {
		sig := f.Signature
		if f != dec && sig.Params().Len() == 2 && sig.Results().Len() == 2 && (typeStr(sig.Params().At(1).Type()) == "byte" || typeStr(sig.Params().At(1).Type()) == "uint8") && typeStr(sig.Results().At(0).Type()) == "int" && isErrorType(sig.Results().At(1).Type()) {
			return f
		}
	}
	return nil
}
