package main

import (
	"fmt"
	"os"
	"sort"
	"strconv"
	"strings"

	"golang.org/x/tools/go/ssa"
)

// developer dumps: HLINT_FN=<function> HLINT_TAG=<n> bin/hlint -dump pxret …
// prints every root return of the exploration of the function with the tag /
// flag parameter fixed, with the result terms and the facts of the path.
func init() {
	extraDumps["pxret"] = func(w *World) {
		fn := w.fn(os.Getenv("HLINT_FN"))
		if fn == nil {
			fmt.Println("no such function (HLINT_FN)")
			return
		}
		ctx := Env{}
		if ts := os.Getenv("HLINT_TAG"); ts != "" {
			t, _ := strconv.ParseInt(ts, 0, 64)
			for _, p := range fn.Params {
				switch typeStr(p.Type()) {
				case "int32", "byte", "uint8":
					ctx["<p:"+p.Name()+">"] = single(t)
				}
			}
		}
		var px *PX
		px = w.newPX(pxHooks{
			onReturn: func(fr *pxFrame, ret *ssa.Return, results []*Term, st *pxState) {
				fmt.Printf("-- return at %s\n", w.instrPos(ret))
				for i, t := range results {
					s, _ := px.evalTerm(t, st)
					fmt.Printf("   result %d: %s ∈ %v\n", i, t.key, s)
					if bs := px.byteSeqOf(ret.Results[i], fr, st); bs != nil {
						fmt.Printf("      bytes: %s\n", octSig(bs.Oct, bs.Open))
					}
				}
				if os.Getenv("HLINT_ENV") != "" {
					var ks []string
					for k := range st.env {
						ks = append(ks, k)
					}
					sort.Strings(ks)
					for _, k := range ks {
						fmt.Printf("      %s ∈ %s\n", k, st.env[k])
					}
				}
				if os.Getenv("HLINT_TRACE") != "" {
					for _, e := range st.trace {
						var as []string
						for _, a := range e.Args {
							if a != nil {
								as = append(as, a.key)
							}
						}
						fmt.Printf("      ev %s %s %s\n", e.Kind, e.Extra, strings.Join(as, " , "))
					}
				}
			},
		})
		if os.Getenv("HLINT_VIEWS") != "" {
			px.views = true
		}
		px.Run(fn, ctx)
		fmt.Println("paths:", px.paths, "truncated:", px.Truncated)
	}
	extraDumps["ssa"] = func(w *World) {
		fn := w.fn(os.Getenv("HLINT_FN"))
		if fn == nil {
			fmt.Println("no such function (HLINT_FN)")
			return
		}
		fn.WriteTo(stdoutWriter{})
		for _, a := range fn.AnonFuncs {
			a.WriteTo(stdoutWriter{})
		}
	}
}
