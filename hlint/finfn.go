package main

// Finite function summaries: table-driven classification.
//
// A dispatch written as `shape := shapeOf(v.Kind()); if shape == shapeList {…}`
// with `shapeOf` a bounds-checked look-up in a package-level table indexed by
// reflect.Kind says the same as the comparison chain
// `v.Kind() == Array || v.Kind() == Slice`.  The classifier is summarised
// exactly, by exploring it once per value of its (small) parameter domain; a
// fact about the classifier's result is then carried back to its argument as
// the pre-image of that result.  The table is read from the package
// initialiser and is trusted only if nothing in the package can write to it
// afterwards.

import (
	"fmt"
	"go/types"
	"math/big"

	"golang.org/x/tools/go/ssa"
)

type finSummary struct {
	dom ISet            // the enumerated parameter values
	img map[int64]int64 // value of the result for each of them
}

var (
	finMemo = map[*ssa.Function]*finSummary{}
	finBusy = map[*ssa.Function]bool{}
)

// finDomain: the values a parameter of this type takes.  reflect.Kind: the 27
// kinds of package reflect (library semantics); an 8-bit unsigned: 0..255.
func finDomain(w *World, t types.Type) (ISet, bool) {
	if typeStr(t) == "reflect.Kind" {
		return mkSet(0, 26), true
	}
	if bits, signed, ok := intTypeInfo(w, t); ok && bits == 8 && !signed {
		return mkSet(0, 255), true
	}
	return nil, false
}

// finiteFn: fn is an in-package function of one small-domain integer
// parameter and one integer result whose result is a constant for every value
// of the parameter (decided by exploration: arithmetic, branches, helpers,
// immutable package tables).  nil if it is not.
func (w *World) finiteFn(fn *ssa.Function) *finSummary {
	if s, ok := finMemo[fn]; ok {
		return s
	}
	if finBusy[fn] {
		return nil
	}
	finBusy[fn] = true
	defer delete(finBusy, fn)
	var out *finSummary
	defer func() { finMemo[fn] = out }()
	if fn == nil || fn.Blocks == nil || !w.inPkg(fn) || fn.Signature.Recv() != nil || len(fn.Params) != 1 || fn.Signature.Results().Len() != 1 || len(fn.FreeVars) != 0 {
		return nil
	}
	rt, ok := fn.Signature.Results().At(0).Type().Underlying().(*types.Basic)
	if !ok || rt.Info()&types.IsInteger == 0 {
		return nil
	}
	dom, ok := finDomain(w, fn.Params[0].Type())
	if !ok {
		return nil
	}
	vals, _ := dom.Elems(256)
	s := &finSummary{dom: dom, img: map[int64]int64{}}
	for _, v := range vals {
		var res *big.Int
		bad, seen := false, false
		px := w.newPX(pxHooks{
			onReturn: func(fr *pxFrame, ret *ssa.Return, results []*Term, st *pxState) {
				px2 := w.newPX(pxHooks{})
				r, _ := px2.evalTerm(results[0], st)
				if r == nil || r.Card().Cmp(one) != 0 {
					bad = true
					return
				}
				if seen && r.Min().Cmp(res) != 0 {
					bad = true
				}
				res, seen = r.Min(), true
			},
		})
		px.maxPaths, px.maxSteps = 64, 4000
		px.Run(fn, Env{"<p:" + fn.Params[0].Name() + ">": single(v)})
		if bad || !seen || px.Truncated || !res.IsInt64() {
			return nil
		}
		s.img[v] = res.Int64()
	}
	out = s
	return out
}

// image: the results for the arguments in a; ok=false if a is not within the
// enumerated domain.
func (s *finSummary) image(a ISet) (ISet, bool) {
	if a == nil || !a.Minus(s.dom).Empty() {
		return nil, false
	}
	el, ok := a.Elems(256)
	if !ok {
		return nil, false
	}
	var r ISet
	for _, x := range el {
		r = r.Union(single(s.img[x]))
	}
	return r, true
}

// preimage: the arguments in cur whose result lies in res; arguments outside
// the enumerated domain are kept (nothing is known about them).
func (s *finSummary) preimage(cur, res ISet) ISet {
	out := cur.Minus(s.dom)
	el, ok := cur.Intersect(s.dom).Elems(256)
	if !ok {
		return cur
	}
	for _, x := range el {
		if res.Contains(s.img[x]) {
			out = out.Union(single(x))
		}
	}
	return out
}

// finCallee: the summarised classifier a "fin:" term calls.
func (f *Flow) finCallee(t *Term) *finSummary {
	call, ok := t.V.(*ssa.Call)
	if !ok {
		return nil
	}
	return f.w.finiteFn(call.Common().StaticCallee())
}

// finArgSet: the current set of a classifier's argument.  The result of a
// reflect Kind() getter is one of the 27 kinds.
func (f *Flow) finArgSet(arg *Term, env Env) ISet {
	cur, _ := f.Eval(arg, env)
	if cur == nil {
		return nil
	}
	if typeStr(arg.T) == "reflect.Kind" && arg.K == TPure {
		cur = cur.Intersect(mkSet(0, 26))
	}
	return cur
}

func init() {
	extraDumps["fin"] = func(w *World) {
		for _, fn := range w.SrcFuncs() {
			if fn.Signature.Recv() != nil || len(fn.Params) != 1 {
				continue
			}
			if _, ok := finDomain(w, fn.Params[0].Type()); !ok {
				continue
			}
			s := w.finiteFn(fn)
			if s == nil {
				fmt.Printf("%-28s no summary\n", fnName(fn))
				continue
			}
			el, _ := s.dom.Elems(256)
			fmt.Printf("%-28s", fnName(fn))
			for _, x := range el {
				if s.img[x] != 0 {
					fmt.Printf(" %d→%d", x, s.img[x])
				}
			}
			fmt.Println(" (others → 0)")
		}
	}
}
