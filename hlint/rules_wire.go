package main

import (
	"fmt"
	"go/token"
	"strings"

	"golang.org/x/tools/go/ssa"
)

func init() {
	register("C01", rulesC01,
		"The round trip over all values of ~40 types is not decidable statically (the reflective walk depends on the value). Decides necessary conditions, each with a concrete failing value when violated: "+
			"R1 kind-table agreement — the wire codec the encoder's kind dispatch uses for each scalar reflect.Kind equals the codec the struct-field decoder uses for that kind (extracted from the refined Kind() facts of both functions), the typed reflect setter used on each branch matches the kinds reaching it, and the Ensure* conversion helpers accept every Go type the readers of that class produce; "+
			"R2 dispatch agreement — every first octet the encoder can emit (scalar forms and container headers, as tag sets) resolves in the value dispatcher to the reader of that production, and the field dispatchers (struct, list, map fields) accept every first octet the corresponding writer emits; "+
			"R3 compact container headers carry the untruncated count/index, proven inside the form's range at the emission; "+
			"R4 every raw reflect sink in a container reader (Set, SetMapIndex, reflect.Append) stores a value that went through the converting family (convertTo/SetValue) or is interface-typed. "+
			"Clauses shared with other properties are reported there (null is a value: C09.R3; integral doubles: C08; int narrowing: C07.R4; registration pairing: C04.R1). Does NOT decide equality of field contents, element order or map entries.",
		"obligation = one reflect.Kind / one emitted first octet / one compact header / one reflect sink; non-trivial = needs tag sets, Kind facts or intervals",
		"reflect.Value.Kind() facts are refined along switch arms; convertTo/SetValue is the package's converting setter")
	register("C02", rulesC02,
		"Whole-stream well-formedness needs an independent parser run on emitted bytes; not decided. Decides, against the frozen Hessian 2.0 table: "+
			"R1 form conformance of every scalar encoder form (tag set, octet count, value range, big-endian windows, chunk arithmetic) for int, long, double, string, binary, date, boolean; "+
			"R2 container headers — every header octet a container writer emits belongs to the specification's set for that container, the count written after a fixed-length header is the term the element loop is bounded by, every iteration writes exactly one value (two per map entry), the class definition's field count is the loop bound of the names written; "+
			"R3 the class definition is emitted before the instance on the lookup-miss path, the index returned is the table position (len before append; loop index of the match); "+
			"R4 the names written in the class definition are lowerName(typ.Field(i).Name) for i ascending from 0, the helper maps a leading A-Z by +32 only, and the class name written is the name-map value (or the type name on a miss); "+
			"R5 from every map header every path to a nil-error return passes the terminator Z; "+
			"R6 the ordinal written in a back-reference is the registrar's result, which is len(table) at insertion (C04.R2). "+
			"Does NOT decide that the bytes as a whole parse, nor the list type-name rewriting.",
		"obligation = one encoder form / header emission / loop path / name write / map return",
		"the frozen table hlint/spec.go")
}

// ---- C01 ----

var scalarKinds = []string{"Bool", "String", "Int", "Int8", "Int16", "Int32", "Int64", "Uint", "Uint8", "Uint16", "Uint32", "Uint64", "Float32", "Float64"}

func rulesC01(w *World, r *Report) {
	// R1 kind tables
	tbl, err := w.kindTables()
	if err != nil {
		r.undecided("C01.R1 kind tables agree", "kind tables", "-", err.Error())
	} else {
		var lines []string
		for _, k := range scalarKinds {
			e, d := tbl.enc[k], tbl.dec[k]
			lines = append(lines, fmt.Sprintf("%s: encoder→%s, readField→%s", k, e, d))
			ok := e != "" && e == d && !strings.Contains(e, "|")
			if k == "Bool" && e == "bool" && d == "bool" {
				ok = true
			}
			r.add("C01.R1 kind tables agree", "kind "+k, "-", ok, fmt.Sprintf("WriteData writes kind %s with the %q codec, readField reads it with %q", k, e, d))
		}
		r.role("kind → wire codec", lines)
	}
	w.ruleSetterKindsPX(r, "C01.R1 typed setters match the kinds reaching them")
	w.ruleEnsureFamilies(r, "C01.R1 conversion helpers accept the readers' result types")
	// R2
	w.ruleEmittedTagsDispatch(r, "C01.R2 emitted tags dispatch to their reader")
	w.ruleFieldDispatchers(r, "C01.R2 field dispatchers accept what the writers emit")
	w.ruleTypeSlots(r, "C01.R2 type slots: literal, or numbered like the decoder numbers them")
	w.ruleNoDoubleWrap(r, "C01.R5 a carrier is never wrapped twice")
	w.ruleNoGetterOnInvalid(r, "C01.R6 no reflect accessor on a Value that may be the zero Value")
	w.ruleCountedTraversals(r, "C01.R8 counted traversals visit every member", 6, nil)
	w.ruleConversionLoops(r, "C01.R9 a conversion loop fills every slot from the element of its turn", 1)
	w.ruleSettersWrite(r, "C01.R10 a setter writes its destination on every path that has a value", 1)
	{
		reach := w.reachPkg(w.decodeEntryPoints()...)
		w.ruleMakeKindChecked(r, "C01.R12 reflect constructors are given a type of the kind they build", func(fn *ssa.Function) bool { return reach[fn] || reach[rootFn(fn)] })
	}
	w.rulePointerFieldsAllocated(r, "C01.R11 a pointer field is allocated before its pointee is set")
	w.ruleInternalErrorsPropagate(r, "C01.R7 a failed conversion or binding surfaces, a successful one continues", 10)
	// R3
	for _, x := range []struct {
		fn     string
		lo, hi int64
	}{{"(*Encoder).writeList", 0x70, 0x77}, {"(*Encoder).writeObject", 0x60, 0x6f}} {
		if fn := w.fn(x.fn); fn != nil {
			w.ruleCompactHeaders(r, "C01.R3 compact headers carry the true count", fn, x.lo, x.hi)
		} else {
			r.undecided("C01.R3 compact headers carry the true count", x.fn, "-", "anchor not found")
		}
	}
	// R4
	w.ruleConvertedSinks(r, "C01.R4 typed destinations receive converted values")
	r.note("spec table digest %s", specDigest())
	include(w, r, "C04")
	include(w, r, "C05")
	include(w, r, "C07")
	include(w, r, "C08")
	include(w, r, "C09")
	include(w, r, "C10")
	include(w, r, "C16")
}

// ruleSetterKinds: in readField, SetInt only under Int kinds, SetUint under
// Uint kinds, SetFloat under Float kinds, SetString under String, SetBool under Bool.
func (w *World) ruleSetterKinds(r *Report, rule string) {
	rf := w.fn("(*Decoder).readField")
	if rf == nil {
		r.undecided(rule, "(*Decoder).readField", "-", "anchor not found")
		return
	}
	f := w.flow(rf)
	allowed := map[string]string{"SetInt": "Int", "SetUint": "Uint", "SetFloat": "Float", "SetString": "String", "SetBool": "Bool"}
	n := 0
	for _, cs := range w.callSitesIn(rf) {
		sc := cs.call.Call.StaticCallee()
		if sc == nil || sc.Signature.Recv() == nil || typeStr(sc.Signature.Recv().Type()) != "reflect.Value" {
			continue
		}
		pref, ok := allowed[sc.Name()]
		if !ok {
			continue
		}
		n++
		ks := f.kindsAt(cs.call.Block())
		good := len(ks) > 0
		for _, k := range ks {
			if !strings.HasPrefix(k, pref) || (pref == "Int" && strings.HasPrefix(k, "Interface")) {
				good = false
			}
		}
		r.add(rule, fmt.Sprintf("(*Decoder).readField · %s", cs.key()), w.instrPos(cs.call), good, fmt.Sprintf("%s is reached for kinds %v (reflect panics when the setter does not match the kind)", sc.Name(), ks))
	}
	r.floor(rule, n, 6)
}

func (w *World) ruleEnsureFamilies(r *Report, rule string) {
	need := map[string][]string{"EnsureInt64": {"int32", "int64"}, "EnsureUint64": {"int32", "int64"}, "EnsureFloat64": {"float64"}}
	for _, name := range []string{"EnsureFloat64", "EnsureInt64", "EnsureUint64"} {
		fn := w.fn(name)
		if fn == nil {
			r.undecided(rule, name, "-", "anchor not found")
			continue
		}
		acc := map[string]bool{}
		for _, b := range fn.Blocks {
			for _, in := range b.Instrs {
				if ta, ok := in.(*ssa.TypeAssert); ok && ta.CommaOk {
					acc[typeStr(ta.AssertedType)] = true
				}
			}
		}
		var missing []string
		for _, t := range need[name] {
			if !acc[t] {
				missing = append(missing, t)
			}
		}
		r.add(rule, name, w.pos(fn.Pos()), len(missing) == 0, fmt.Sprintf("accepts %v; the wire readers of this class produce %v; missing %v", sortedKeys(acc), need[name], missing))
	}
}

// ruleFieldDispatchers: struct / list / map field readers accept the first
// octets their writers emit.
func (w *World) ruleFieldDispatchers(r *Report, rule string) {
	ets := w.encoderTagSets()
	type chk struct {
		disp  string
		emits ISet
		what  string
	}
	objTags := ets["container:(*Encoder).writeObject"].Union(ets["container:classdef"]).Union(ets["date"]).Union(single('N')).Union(single(0x51))
	listTags := ets["container:(*Encoder).writeList"].Union(ets["binary"]).Union(single('N')).Union(single(0x51))
	checks := []chk{
		{"(*Decoder).readStruct", objTags, "a struct-kind field (object, class definition, date, null, ref)"},
		{"(*Decoder).ReadList", listTags, "a slice-kind field (list headers, binary, null, ref)"},
	}
	for _, c := range checks {
		fn := w.fn(c.disp)
		if fn == nil {
			r.undecided(rule, c.disp, "-", "anchor not found")
			continue
		}
		d := w.dispatchOf(fn, nil)
		if d == nil {
			r.undecided(rule, c.disp, "-", "dispatcher not recognised")
			continue
		}
		var bad []string
		ts, _ := c.emits.Elems(256)
		for _, t := range ts {
			if d.arm[t] == "error" || d.arm[t] == "none" {
				bad = append(bad, fmt.Sprintf("x%02x→%s", t, d.arm[t]))
			}
		}
		r.add(rule, c.disp+" accepts "+c.what, w.pos(fn.Pos()), len(bad) == 0, fmt.Sprintf("first octets the writers can emit here: %s; rejected: %v", c.emits.HexString(), bad))
	}
	// readMap: a switch on the tag
	rm := w.fn("(*Decoder).readMap")
	if rm == nil {
		r.undecided(rule, "(*Decoder).readMap", "-", "anchor not found")
		return
	}
	d := w.dispatchOf(rm, nil)
	mapTags := ets["container:(*Encoder).writeMap"].Minus(single('Z')).Union(single(0x51))
	var bad []string
	if d != nil {
		ts, _ := mapTags.Elems(256)
		for _, t := range ts {
			if d.arm[t] == "error" || d.arm[t] == "none" || d.arm[t] == "" {
				bad = append(bad, fmt.Sprintf("x%02x→%s", t, d.arm[t]))
			}
		}
	} else {
		bad = append(bad, "dispatcher not recognised")
	}
	r.add(rule, "(*Decoder).readMap accepts a map-kind field (H, M, null, ref)", w.pos(rm.Pos()), len(bad) == 0, fmt.Sprintf("first octets the map writer can emit: %s; rejected: %v", mapTags.HexString(), bad))
}

// ruleConvertedSinks.
func (w *World) ruleConvertedSinks(r *Report, rule string) {
	conv := map[string]bool{"convertTo": true}
	n := 0
	// the examined code: the Decoder's methods and their private helpers
	// (unexported package functions called from examined functions only), each
	// with the Decoder methods it works for
	owners := w.decoderLayer()
	readers := map[*ssa.Function]bool{}
	for _, fn := range w.SrcFuncs() {
		if len(owners[fn]) == 0 {
			continue
		}
		cnt := 0
		for _, cs := range w.callSitesIn(fn) {
			var vals []ssa.Value
			switch cs.callee {
			case "reflect.Append":
				vals = cs.call.Call.Args[1:]
				// variadic: the values are packed in a slice literal
				if len(vals) == 1 {
					if sl, ok := vals[0].(*ssa.Slice); ok {
						if al, ok := sl.X.(*ssa.Alloc); ok {
							vals = nil
							for _, ref := range *al.Referrers() {
								if ia, ok := ref.(*ssa.IndexAddr); ok {
									for _, r2 := range *ia.Referrers() {
										if st, ok := r2.(*ssa.Store); ok {
											vals = append(vals, st.Val)
										}
									}
								}
							}
						}
					}
				}
			case "(reflect.Value).SetMapIndex":
				vals = cs.call.Call.Args[1:3]
			case "(reflect.Value).Set":
				vals = cs.call.Call.Args[1:2]
			default:
				continue
			}
			n++
			cnt++
			for o := range owners[fn] {
				readers[o] = true
			}
			ok := true
			var facts []string
			for _, v := range vals {
				// the stored value is a parameter of an extracted helper
				// (`growList(holder, list, elem)` = Append + change): it stands for the
				// operands at the helper's call sites, each classified like a direct operand
				if args, isPrm := w.helperParamOperands(v, 0); isPrm {
					for _, a := range args {
						if okA, fact := classifyConverted(a, conv); okA {
							facts = append(facts, "parameter "+v.Name()+" ← "+fact)
						} else {
							ok = false
							facts = append(facts, "parameter "+v.Name()+" ← "+fact)
						}
					}
					continue
				}
				c, isCall := v.(*ssa.Call)
				switch {
				case isCall && c.Call.StaticCallee() != nil && conv[fnName(c.Call.StaticCallee())]:
					facts = append(facts, "converted by "+fnName(c.Call.StaticCallee()))
				case isCall && c.Call.StaticCallee() != nil && qualifiedFnName(c.Call.StaticCallee()) == "(reflect.Value).Elem":
					// reflect.ValueOf(&x).Elem() with x an interface{} variable: interface-typed element
					if vo, ok := c.Call.Args[0].(*ssa.Call); ok && vo.Call.StaticCallee() != nil && qualifiedFnName(vo.Call.StaticCallee()) == "reflect.ValueOf" {
						facts = append(facts, "interface-typed element (ValueOf(&x).Elem())")
					} else {
						ok = false
						facts = append(facts, "unconverted "+v.String())
					}
				default:
					ok = false
					facts = append(facts, "unconverted value "+v.String()+" (e.g. an int32 stored into a map[string]int panics)")
				}
			}
			r.add(rule, fmt.Sprintf("%s · %s", fnName(fn), cs.key()), w.instrPos(cs.call), ok, strings.Join(facts, "; "))
		}
	}
	// floor over the readers served (typed list, untyped list, typed map, map
	// field), not over sink sites: two readers may store through one helper
	r.floor(rule+" (Decoder methods whose stores were examined)", len(readers), 4)
}

// classifyConverted: one operand of a reflect sink: converted by the element
// converter, or an interface-typed element `reflect.ValueOf(&x).Elem()`.
func classifyConverted(v ssa.Value, conv map[string]bool) (bool, string) {
	c, isCall := v.(*ssa.Call)
	switch {
	case isCall && c.Call.StaticCallee() != nil && conv[fnName(c.Call.StaticCallee())]:
		return true, "converted by " + fnName(c.Call.StaticCallee())
	case isCall && c.Call.StaticCallee() != nil && qualifiedFnName(c.Call.StaticCallee()) == "(reflect.Value).Elem":
		if vo, ok := c.Call.Args[0].(*ssa.Call); ok && vo.Call.StaticCallee() != nil && qualifiedFnName(vo.Call.StaticCallee()) == "reflect.ValueOf" {
			return true, "interface-typed element (ValueOf(&x).Elem())"
		}
	}
	return false, "unconverted value " + v.String() + " (e.g. an int32 stored into a map[string]int panics)"
}

// helperParamOperands: v is a parameter of an unexported package function (not
// a method, not a literal) that is only ever called statically from inside the
// package: the operands handed over for it at all those call sites (a parameter
// of a further such helper is followed, depth ≤ 3).  isPrm is false when v is not
// such a parameter (then it is classified as it stands).
func (w *World) helperParamOperands(v ssa.Value, depth int) (args []ssa.Value, isPrm bool) {
	prm, ok := v.(*ssa.Parameter)
	if !ok || depth > 3 {
		return nil, false
	}
	fn := prm.Parent()
	if fn == nil || fn.Parent() != nil || fn.Signature.Recv() != nil || token.IsExported(fn.Name()) || !w.inPkg(fn) {
		return nil, false
	}
	pi := -1
	for i, q := range fn.Params {
		if q == prm {
			pi = i
		}
	}
	n := w.CG.Nodes[fn]
	if pi < 0 || n == nil || len(n.In) == 0 {
		return nil, false
	}
	for _, e := range n.In {
		c, ok := e.Site.(*ssa.Call)
		if !ok || c.Call.StaticCallee() != fn || e.Caller.Func == nil || !w.inPkg(e.Caller.Func) || pi >= len(c.Call.Args) {
			return nil, false // called through a function value, go/defer, or from outside
		}
		a := c.Call.Args[pi]
		if more, isP := w.helperParamOperands(a, depth+1); isP {
			args = append(args, more...)
		} else {
			args = append(args, a)
		}
	}
	return args, true
}

// decoderLayer: the methods of *Decoder, and the unexported package functions
// every static call site of which lies in a function of the layer (helpers
// extracted from the methods), mapped to the Decoder methods they serve.
func (w *World) decoderLayer() map[*ssa.Function]map[*ssa.Function]bool {
	owners := map[*ssa.Function]map[*ssa.Function]bool{}
	for _, fn := range w.SrcFuncs() {
		if recv := fn.Signature.Recv(); recv != nil && namedIs(recv.Type(), hessianPath, "Decoder") {
			owners[fn] = map[*ssa.Function]bool{fn: true}
		}
	}
	callers := map[*ssa.Function][]*ssa.Function{}
	for _, caller := range w.SrcFuncs() {
		for _, cs := range w.callSitesIn(caller) {
			if sc := cs.call.Call.StaticCallee(); sc != nil && w.inPkg(sc) {
				callers[sc] = append(callers[sc], caller)
			}
		}
	}
	for changed := true; changed; {
		changed = false
		for _, fn := range w.SrcFuncs() {
			// a function literal works for whoever wrote it: the store closure handed to
			// a shared element loop (`put := func(j int, item interface{}) {…}`) belongs
			// to the reader that builds it
			if par := fn.Parent(); par != nil {
				for o := range owners[par] {
					if owners[fn] == nil {
						owners[fn] = map[*ssa.Function]bool{}
					}
					if !owners[fn][o] {
						owners[fn][o] = true
						changed = true
					}
				}
				continue
			}
			if token.IsExported(fn.Name()) || fn.Signature.Recv() != nil || len(callers[fn]) == 0 {
				continue
			}
			all := true
			for _, c := range callers[fn] {
				if c != fn && owners[c] == nil {
					all = false
				}
			}
			if !all {
				continue
			}
			if owners[fn] == nil {
				owners[fn] = map[*ssa.Function]bool{}
			}
			for _, c := range callers[fn] {
				for o := range owners[c] {
					if !owners[fn][o] {
						owners[fn][o] = true
						changed = true
					}
				}
			}
		}
	}
	return owners
}

// ---- C02 ----

func rulesC02(w *World, r *Report) {
	w.ruleSizesNotNarrowed(r, "C02.R10 sizes written on the wire are not narrowed below 32 bits", 3)
	{
		reach := w.reachPkg(w.encoderRoots()...)
		w.ruleCountedTraversals(r, "C02.R9 the encoder writes every member of a container", 3, func(fn *ssa.Function) bool { return reach[fn] || reach[rootFn(fn)] })
	}
	// R1
	w.ruleNumEncoder(r, "C02.R1 int/long forms conform", "C02.R1 int/long tags and windows conform", "int", specInt)
	w.ruleNumEncoder(r, "C02.R1 int/long forms conform", "C02.R1 int/long tags and windows conform", "long", specLong)
	w.ruleDoubleEncoder(r, "C02.R1 double encoder is total", "C02.R1 double forms conform")
	w.ruleLenEncoder(r, "C02.R1 string forms conform", "string")
	w.ruleLenEncoder(r, "C02.R1 binary forms conform", "binary")
	w.dateEncoderForms(r, "C02.R1 date compact form exact", "C02.R1 date forms conform", "C02.R1 zero date is null", true, "C02.R1 date forms conform")
	ets := w.encoderTagSets()
	r.add("C02.R1 boolean forms conform", "encodeBoolean", "-", ets["bool"].Equal(single('T').Union(single('F'))), "boolean first octets = "+ets["bool"].HexString()+" (spec: T, F)")

	// R2 container headers
	allowed := map[string]ISet{
		"(*Encoder).writeList": single(0x58).Union(single(0x56)).Union(mkSet(0x70, 0x77)).Union(mkSet(0x78, 0x7f)).Union(single(0x55)).Union(single(0x57)),
		"(*Encoder).writeMap":  single('N').Union(single('M')).Union(single('H')).Union(single('Z')),
		// the order of these octets within the production is C02.R3's business
		"(*Encoder).writeObject": single('O').Union(mkSet(0x60, 0x6f)).Union(single('C')),
		"(*Encoder).writeRef":    single(0x51),
		"(*Encoder).WriteData":   single('N'),
	}
	w.ruleHeaderOctets(r, "C02.R2 container headers conform", allowed)
	w.ruleListCount(r, "C02.R2 declared count = loop bound")
	w.ruleTypeSlots(r, "C02.R7 type slots: literal, or numbered like the decoder numbers them")
	w.ruleWriterProductions(r, "C02.R8 every successful writer path spells one production")
	if fn := w.fn("(*Encoder).writeList"); fn != nil {
		w.ruleCompactHeaders(r, "C02.R2 compact list header carries the true length", fn, 0x70, 0x77)
	}
	if fn := w.fn("(*Encoder).writeObject"); fn != nil {
		w.ruleCompactHeaders(r, "C02.R2 compact instance header carries the true index", fn, 0x60, 0x6f)
	}
	w.ruleValuesPerIteration(r, "C02.R2 one value per iteration")

	// R3 / R4 class definition
	w.ruleObjectProduction(r, "C02.R3 definition before instance; index = position", "C02.R4 class and field names")

	// R5 map framing
	w.ruleMapFraming(r, "C02.R5 map terminator on every path")

	// R6 ref ordinal
	w.ruleRefOrdinal(r, "C02.R6 back-reference carries the registrar's ordinal")
	r.note("spec table digest %s", specDigest())
	include(w, r, "C04")
}

// traceStoredElement: v is a load of s[counter]; find the value stored to
// s[counter] in the same function.
func traceStoredElement(v ssa.Value, counter *ssa.Phi) ssa.Value {
	ld, ok := v.(*ssa.UnOp)
	if !ok || ld.Op != token.MUL {
		return nil
	}
	ia, ok := ld.X.(*ssa.IndexAddr)
	if !ok || ia.Index != ssa.Value(counter) {
		return nil
	}
	for _, ref := range *ia.X.Referrers() {
		ia2, ok := ref.(*ssa.IndexAddr)
		if !ok || ia2.Index != ssa.Value(counter) {
			continue
		}
		for _, r2 := range *ia2.Referrers() {
			if st, ok := r2.(*ssa.Store); ok {
				return st.Val
			}
		}
	}
	return nil
}

func callsToIn(b *ssa.BasicBlock, callee *ssa.Function) []*ssa.Call {
	var out []*ssa.Call
	for _, in := range b.Instrs {
		if c, ok := in.(*ssa.Call); ok && c.Call.StaticCallee() == callee {
			out = append(out, c)
		}
	}
	return out
}

// ruleRefOrdinal: writeRef's argument is the registrar's result #0; writeRef
// writes it with the int codec after x51.
func (w *World) ruleRefOrdinal(r *Report, rule string) {
	reg := w.encRegistrar()
	wr := w.fn("(*Encoder).writeRef")
	if reg == nil || wr == nil {
		r.undecided(rule, "registrar / writeRef", "-", "anchor not found")
		return
	}
	n := 0
	for _, fn := range w.SrcFuncs() {
		for _, c := range callsTo(fn, wr) {
			n++
			arg := c.Call.Args[1]
			ok := false
			if ex, isEx := arg.(*ssa.Extract); isEx && ex.Index == 0 {
				if rc, isC := ex.Tuple.(*ssa.Call); isC && rc.Call.StaticCallee() == reg {
					ok = true
				}
			}
			r.add(rule, fmt.Sprintf("%s · writeRef argument", fnName(fn)), w.instrPos(c), ok, "the ordinal written is result #0 of the registrar call of this value")
		}
	}
	// writeRef body, read from its paths (helpers stepped into; the tag may go through the
	// variadic byte writer or be handed to the slice writer as a one-octet slice): every
	// path emits x51 first, and a path that can succeed then writes its integer parameter
	// with the int codec and nothing else
	okBody, tagOK := w.refWriterBody(wr)
	r.add(rule, "(*Encoder).writeRef · x51 then int(ordinal)", w.pos(wr.Pos()), okBody && tagOK, fmt.Sprintf("tag x51 written=%v, ordinal parameter written with the int codec=%v", tagOK, okBody))
	// the registrar returns the stored ordinal on a hit: read from the registrar's paths
	// (rules_registrar_px.go), so the lookup may sit in an accessor and the results may be
	// named and joined in one return
	hit, hitFact := w.registrarHitReturnsStored()
	r.add(rule, fnName(reg)+" · a hit returns the stored ordinal", w.pos(reg.Pos()), hit, hitFact)
	w.ruleRefKeyPins(r, rule)
	r.floor(rule, n, 3)
}

// refWriterBody: (the ordinal parameter is written with the int codec right after the tag
// on every successful path, the first emission of every path is the octet x51).
func (w *World) refWriterBody(wr *ssa.Function) (okBody, tagOK bool) {
	wi := w.writerPaths(wr)
	if wi.truncated || len(wi.paths) == 0 {
		return false, false
	}
	okBody, tagOK = true, true
	succ := 0
	for _, p := range wi.paths {
		var evs []pxEvent
		for _, e := range p.Trace {
			switch {
			case e.Kind == "loophead", e.Kind == "fieldstore", e.Kind == "typetest", e.Kind == "mapupdate", strings.HasPrefix(e.Kind, "encode:"):
				continue
			}
			evs = append(evs, e)
		}
		if len(evs) > 0 {
			e := evs[0]
			isTag := (e.Kind == "octets" || e.Kind == "bytes") && e.Extra != "unmodelled" && e.Extra != "open" && len(e.Args) == 1 && e.Args[0] != nil
			if isTag {
				s, _ := w.evalEv(e.Args[0], e.Env)
				isTag = s != nil && s.Equal(single(0x51))
			}
			if !isTag {
				tagOK = false
			}
		}
		if !p.ErrNil {
			continue
		}
		succ++
		if len(evs) == 0 {
			tagOK = false
		}
		good := len(evs) == 2 && evs[1].Kind == "scalar:int" && len(evs[1].Args) == 1
		if good {
			t := stripConv(w, evs[1].Args[0])
			prm, isP := t.V.(*ssa.Parameter)
			good = t.K == TLeaf && isP && prm.Parent() == wr
		}
		if !good {
			okBody = false
		}
	}
	if succ == 0 {
		return false, false
	}
	return okBody, tagOK
}
