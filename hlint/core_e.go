package main

import (
	"golang.org/x/tools/go/ssa"
)

// isWrapper: a synthetic function the SSA builder makes for a method
// expression `(*T).M` (thunk), a method value `x.M` (bound-method closure) or a
// promoted / interface method (wrapper).  It belongs to no package and only
// forwards to the declared method.
func isWrapper(fn *ssa.Function) bool {
	return fn != nil && fn.Synthetic != "" && fn.Pkg == nil && fn.Parent() == nil && fn.Blocks != nil
}

// cgCallees: the call-graph successors of f, looking THROUGH synthetic
// wrappers: `(*Encoder).WriteTo(e, w, v)` calls the thunk of the method
// expression, which calls the method; the method is the callee that matters.
func (w *World) cgCallees(f *ssa.Function) []*ssa.Function {
	var out []*ssa.Function
	seen := map[*ssa.Function]bool{}
	var visit func(g *ssa.Function, depth int)
	visit = func(g *ssa.Function, depth int) {
		n := w.CG.Nodes[g]
		if n == nil {
			return
		}
		for _, e := range n.Out {
			c := e.Callee.Func
			if c == nil || seen[c] {
				continue
			}
			seen[c] = true
			if isWrapper(c) && depth < 4 {
				visit(c, depth+1)
				continue
			}
			out = append(out, c)
		}
	}
	visit(f, 0)
	return out
}

// unthunk: the declared method behind the thunk of a method expression, when
// the thunk takes exactly the method's parameters (receiver first), so that a
// call of the thunk is a call of the method with the same operands; fn itself
// otherwise.
func (w *World) unthunk(fn *ssa.Function) *ssa.Function {
	if !isWrapper(fn) {
		return fn
	}
	m := w.throughWrapper(fn)
	if m == fn || m == nil || m.Blocks == nil || len(m.Params) != len(fn.Params) || len(fn.FreeVars) != 0 {
		return fn
	}
	return m
}
