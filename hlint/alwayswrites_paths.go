package main

// Path walk of C13.R5 / ruleAlwaysWrites: is there a path from the entry of fn
// to a return that can report success without passing a block that writes?
//
// The walk is per edge: error-typed φ-nodes are resolved by the incoming edge,
// so a function with named results and ONE exit (`n, err = 0, newErr(); …;
// return n, err`) is judged arm by arm exactly like the shape with one return
// per arm.  A state is (block, resolved error φs), so two ways of reaching a
// join with different pending errors are both explored.

import (
	"fmt"
	"sort"
	"strings"

	"golang.org/x/tools/go/ssa"
)

func (w *World) silentSuccessReturn(fn *ssa.Function, f *Flow, writes map[*ssa.BasicBlock]bool) *ssa.Return {
	idx := errIndex(fn.Signature)
	if idx < 0 || len(fn.Blocks) == 0 {
		return nil
	}
	phiRes := map[*ssa.Phi]ssa.Value{}
	finger := func() string {
		var ks []string
		for p, v := range phiRes {
			ks = append(ks, fmt.Sprintf("%s=%s@%p", p.Name(), v.Name(), v))
		}
		sort.Strings(ks)
		return strings.Join(ks, ",")
	}
	seen := map[string]bool{}
	var bad *ssa.Return
	budget := 200000
	var walk func(pred, b *ssa.BasicBlock)
	walk = func(pred, b *ssa.BasicBlock) {
		if bad != nil || budget <= 0 {
			return
		}
		budget--
		// resolve the error φs of b for this edge (simultaneous assignment)
		type sv struct {
			phi *ssa.Phi
			old ssa.Value
			had bool
		}
		var saved []sv
		if pred != nil {
			pi := -1
			for i, q := range b.Preds {
				if q == pred {
					pi = i
				}
			}
			var phis []*ssa.Phi
			var vals []ssa.Value
			for _, in := range b.Instrs {
				phi, ok := in.(*ssa.Phi)
				if !ok {
					break
				}
				if pi < 0 || !isErrorType(phi.Type()) {
					continue
				}
				phis = append(phis, phi)
				vals = append(vals, resolvePhi(phi.Edges[pi], phiRes))
			}
			for i, phi := range phis {
				old, had := phiRes[phi]
				saved = append(saved, sv{phi, old, had})
				phiRes[phi] = vals[i]
			}
		}
		defer func() {
			for _, s := range saved {
				if s.had {
					phiRes[s.phi] = s.old
				} else {
					delete(phiRes, s.phi)
				}
			}
		}()
		if writes[b] {
			return
		}
		key := fmt.Sprintf("%d|%s", b.Index, finger())
		if seen[key] {
			return
		}
		seen[key] = true
		if ret, isRet := b.Instrs[len(b.Instrs)-1].(*ssa.Return); isRet {
			e := ret.Results[idx]
			if w.nonNilErr(e, nil, phiRes, 0) {
				return
			}
			if env := f.At(b); env != nil {
				if s, has := env["("+f.term(e).Key()+" != nil:error)"]; has && s.Equal(single(1)) {
					return
				}
			}
			bad = ret
			return
		}
		for _, s2 := range b.Succs {
			walk(b, s2)
		}
	}
	walk(nil, fn.Blocks[0])
	if budget <= 0 && bad == nil {
		// undecided is an alarm: report the first return
		for _, b := range fn.Blocks {
			if ret, ok := b.Instrs[len(b.Instrs)-1].(*ssa.Return); ok {
				return ret
			}
		}
	}
	return bad
}
