package main

// The terminator report handed on with the opposite polarity:
//
//	func (d *Decoder) nextMapKey() (key interface{}, more bool, err error) {
//		key, err = d.ReadData()
//		if err == nil { return key, true, nil }
//		if err == io.EOF { return nil, false, nil }
//		return nil, false, err
//	}
//	…
//	key, more, err := d.nextMapKey()
//	if err != nil { return nil, err }
//	if !more { break }
//
// `more` is false on the terminator report AND on a failure; the caller tells
// them apart by testing the error first.  So `!more` is the terminator report
// (true only through `err == io.EOF` of the helper's own element read) at every
// place where the error result of the same call is known to be nil — provided
// every return of the helper with more == false either lies in the region
// entered through the terminator report or carries a provably non-nil error.
// A helper that answers (nil, false, nil) for any other reason (a nil key) has
// a false outside the region with a nil error: not a continuation flag, and the
// exit stays a value exit.

import (
	"go/token"

	"golang.org/x/tools/go/ssa"
)

func (w *World) continuationFlag(fn *ssa.Function, idx int) bool {
	memo := termFlagMemo[w]
	if memo == nil {
		memo = map[termFlagKey]int{}
		termFlagMemo[w] = memo
	}
	k := termFlagKey{fn, idx, true}
	if v, ok := memo[k]; ok {
		return v == 2
	}
	memo[k] = 1
	if errIndex(fn.Signature) >= 0 && w.terminatorFlagCompute(fn, idx, true) {
		memo[k] = 2
		return true
	}
	return false
}

// continuationReturn: is return ret acceptable for a continuation flag at result
// idx, and is it the terminator report (false, inside the region, nil-able error)?
func (w *World) continuationReturn(ret *ssa.Return, idx int, inRegion bool) (good, report bool) {
	c, isC := ret.Results[idx].(*ssa.Const)
	if !isC || c.Value == nil {
		return false, false
	}
	if c.Value.String() == "true" {
		return true, false
	}
	if inRegion {
		return true, true
	}
	// false outside the region: only together with an error
	ei := errIndex(ret.Parent().Signature)
	if ei < 0 {
		return false, false
	}
	return w.errNonNilAt(ret.Results[ei], ret.Block()), false
}

// nilTestOf: block t ends in `e == nil` / `e != nil`; returns e and the
// successors taken when e is nil / is not nil.
func nilTestOf(t *ssa.BasicBlock) (e ssa.Value, nilSucc, nonNilSucc *ssa.BasicBlock) {
	iff, ok := t.Instrs[len(t.Instrs)-1].(*ssa.If)
	if !ok {
		return nil, nil, nil
	}
	bo, ok := iff.Cond.(*ssa.BinOp)
	if !ok || (bo.Op != token.EQL && bo.Op != token.NEQ) {
		return nil, nil, nil
	}
	switch {
	case isNilConst(bo.Y):
		e = bo.X
	case isNilConst(bo.X):
		e = bo.Y
	default:
		return nil, nil, nil
	}
	if !isErrorType(e.Type()) {
		return nil, nil, nil
	}
	if bo.Op == token.EQL {
		return e, t.Succs[0], t.Succs[1]
	}
	return e, t.Succs[1], t.Succs[0]
}

// errNonNilAt: error value e cannot be nil in block b: by construction, or
// because b is only reached through the non-nil edge of a test of e.
func (w *World) errNonNilAt(e ssa.Value, b *ssa.BasicBlock) bool {
	if isNilConst(e) {
		return false
	}
	if w.nonNilErr(e, nil, nil, 0) {
		return true
	}
	for _, t := range b.Parent().Blocks {
		if te, _, nn := nilTestOf(t); te == e && nn != nil && len(nn.Preds) == 1 && nn.Dominates(b) {
			return true
		}
	}
	return false
}

// errNilWhereTested: every branch on cond (a projection of call c's results)
// sits where the error result of c is known to be nil.
func (w *World) errNilWhereTested(c *ssa.Call, cond ssa.Value) bool {
	ei := errIndex(c.Call.Signature())
	if ei < 0 || c.Referrers() == nil || cond.Referrers() == nil {
		return false
	}
	var errs []ssa.Value
	for _, ref := range *c.Referrers() {
		if ex, ok := ref.(*ssa.Extract); ok && ex.Index == ei {
			errs = append(errs, ex)
		}
	}
	if len(errs) == 0 {
		return false
	}
	n := 0
	for _, ref := range *cond.Referrers() {
		iff, ok := ref.(*ssa.If)
		if !ok {
			continue
		}
		n++
		known := false
		for _, t := range c.Parent().Blocks {
			te, nilSucc, _ := nilTestOf(t)
			if te == nil || nilSucc == nil || len(nilSucc.Preds) != 1 || !nilSucc.Dominates(iff.Block()) {
				continue
			}
			for _, e := range errs {
				if te == e {
					known = true
				}
			}
		}
		if !known {
			return false
		}
	}
	return n > 0
}
