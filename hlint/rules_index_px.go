package main

// C14.R1 / C05.R3 on the path explorer: every element access on a per-stream
// table (a slice field of Decoder / Encoder) is guarded on both sides.
//
// The intraprocedural form asked for the relational fact "idx < len(table)" in
// the block of the access, so a guard that lives in a helper
// (`inRange(i, len(t)) bool`, `checkIndex(i) error`), or is written as
// `uint(i) < uint(len(t))`, or stands in a caller of a small accessor, was not
// seen.  Here the function holding the access is explored path by path with
// helpers stepped into (production readers are not: they only produce the
// index); loops are summarised (facts hold for any iteration).  An access that
// cannot be proven in its own function is looked at again in the context of
// every caller (the accessor is stepped into from each call site) provided all
// its callers are static calls inside the package.

import (
	"fmt"
	"go/token"
	"go/types"
	"os"
	"sort"
	"strings"

	"golang.org/x/tools/go/ssa"
)

type idxSiteRes struct {
	met    int
	bad    int
	lower  bool
	upper  bool
	fact   string
	banned bool  // a call to the function holding the site was not stepped into
	it, lt *Term // the index and the table length as terms (of the last path that met the access)
}

// idxErrPath: the facts at one error return of the explored root.
type idxErrPath struct {
	env Env
	pos string
	met map[*ssa.IndexAddr]bool // accesses passed on this path (the guard let the index through)
}

// pxIndexProof decides one access on the current path.
func (w *World) pxIndexProof(px *PX, ia *ssa.IndexAddr, fr *pxFrame, st *pxState) (lower, upper bool, fact string) {
	it := px.term(ia.Index, fr, st)
	I, _ := px.evalTerm(it, st)
	lower = I != nil && !I.Empty() && I.Min().Sign() >= 0
	base := px.term(ia.X, fr, st)
	lt := px.lenTerm(base, types.Typ[types.Int])
	lenKey := lt.key
	is1 := func(k string, v int64) bool {
		s, has := st.env[k]
		return has && s.Equal(single(v))
	}
	rel := func(a, b string) bool {
		// a < b known on this path, in any of the four spellings
		return is1("("+a+" >= "+b+")", 0) || is1("("+a+" < "+b+")", 1) || is1("("+b+" <= "+a+")", 0) || is1("("+b+" > "+a+")", 1)
	}
	how := ""
	if rel(it.key, lenKey) {
		upper = true
		how = "a test against " + lenKey
	}
	if !upper {
		// a slice made in this call: its length is the term it was made with
		for _, pfx := range []string{"mklen:", "mklenx:"} {
			if ml := st.vals[pfx+base.key]; ml != nil && rel(it.key, ml.key) {
				upper = true
				how = "a test against the length the slice was made with (" + ml.key + ")"
			}
		}
	}
	if !upper {
		// uint(i) < uint(len): one unsigned comparison decides both sides, provided
		// the conversion keeps every bit of the index (same width)
		ib, _, iok := intTypeInfo(w, it.T)
		for _, ut := range []types.BasicKind{types.Uint, types.Uint64, types.Uint32, types.Uintptr} {
			ub, usig, uok := intTypeInfo(w, types.Typ[ut])
			if !iok || !uok || usig || ub != ib {
				continue
			}
			n := types.TypeString(types.Typ[ut], nil)
			if rel("conv:"+n+"("+it.key+")", "conv:"+n+"("+lenKey+")") {
				lower, upper = true, true
				how = "an unsigned test against " + lenKey
			}
		}
	}
	if !upper && I != nil && !I.Empty() {
		// the table is known to be longer than the largest index (len(t) > 0 and t[0])
		if L, _ := px.evalTerm(lt, st); L != nil && !L.Empty() && L.Min().Cmp(I.Max()) > 0 {
			upper = true
			how = "the length range " + L.String()
		}
	}
	if os.Getenv("HLINT_IDXDBG") != "" && !upper {
		ml := st.vals["mklenx:"+base.key]
		mk := "-"
		if ml != nil {
			mk = ml.key
		}
		var ks []string
		for k := range st.env {
			if strings.Contains(k, it.key) {
				ks = append(ks, k+"="+st.env[k].String())
			}
		}
		sort.Strings(ks)
		fmt.Fprintf(os.Stderr, "IDXDBG base=%s mklen=%s idx=%s facts=%v\n", base.key, mk, it.key, ks)
	}
	fact = fmt.Sprintf("index %s ∈ %s: lower bound proven=%v, upper bound by %s=%v", it.key, I, lower, map[bool]string{true: how, false: "a test against " + lenKey}[upper], upper)
	return
}

// staticCallersOf: the package functions that call g, or ok=false when g can
// be entered in a way the explorer cannot follow (exported, dynamic call, go/defer).
func (w *World) staticCallersOf(g *ssa.Function) ([]*ssa.Function, bool) {
	if g.Parent() != nil || token.IsExported(g.Name()) {
		return nil, false
	}
	n := w.CG.Nodes[g]
	if n == nil || len(n.In) == 0 {
		return nil, false
	}
	set := map[*ssa.Function]bool{}
	for _, e := range n.In {
		c, isCall := e.Site.(*ssa.Call)
		if !isCall || c.Call.StaticCallee() != g || e.Caller.Func == nil || !w.inPkg(e.Caller.Func) || e.Caller.Func.Blocks == nil {
			return nil, false
		}
		set[e.Caller.Func] = true
	}
	var out []*ssa.Function
	for f := range set {
		out = append(out, f)
	}
	sort.Slice(out, func(i, j int) bool { return fnName(out[i]) < fnName(out[j]) })
	return out, true
}

// pxIndexRun explores root and reports on the accesses of sites met (in any frame).
func (w *World) pxIndexRun(root *ssa.Function, sites map[*ssa.IndexAddr]bool, forced map[*ssa.Function]bool) (map[*ssa.IndexAddr]*idxSiteRes, bool) {
	res := map[*ssa.IndexAddr]*idxSiteRes{}
	stop := w.readerBoundaries()
	// what happens after the last access (or the last call that leads to one)
	// cannot guard it: calls from there on are not stepped into
	isTarget := func(in ssa.Instruction) bool {
		switch x := in.(type) {
		case *ssa.IndexAddr:
			return sites[x]
		case *ssa.Call:
			return x.Call.StaticCallee() != nil && forced[x.Call.StaticCallee()]
		}
		return false
	}
	reach := map[*ssa.BasicBlock]bool{}
	for _, b := range root.Blocks {
		for _, in := range b.Instrs {
			if isTarget(in) {
				reach[b] = true
			}
		}
	}
	for changed := true; changed; {
		changed = false
		for _, b := range root.Blocks {
			if reach[b] {
				continue
			}
			for _, s := range b.Succs {
				if reach[s] {
					reach[b] = true
					changed = true
					break
				}
			}
		}
	}
	useful := func(c *ssa.Call) bool {
		b := c.Block()
		after := false
		for _, in := range b.Instrs {
			if in == ssa.Instruction(c) {
				after = true
				continue
			}
			if after && isTarget(in) {
				return true
			}
		}
		for _, s := range b.Succs {
			if reach[s] {
				return true
			}
		}
		return false
	}
	var px *PX
	px = w.newPX(pxHooks{
		onInstr: func(fr *pxFrame, in ssa.Instruction, st *pxState) bool {
			switch x := in.(type) {
			case *ssa.IndexAddr:
				if !sites[x] {
					return true
				}
				sr := res[x]
				if sr == nil {
					sr = &idxSiteRes{lower: true, upper: true}
					res[x] = sr
				}
				sr.met++
				st.visits[fmt.Sprintf("idxsite:%p", x)]++
				sr.it = px.term(x.Index, fr, st)
				sr.lt = px.lenTerm(px.term(x.X, fr, st), types.Typ[types.Int])
				lo, up, fact := w.pxIndexProof(px, x, fr, st)
				if !lo || !up {
					sr.bad++
					if sr.lower && sr.upper {
						sr.fact = fact
					}
					sr.lower = sr.lower && lo
					sr.upper = sr.upper && up
				} else if sr.fact == "" {
					sr.fact = fact
				}
			case *ssa.Call:
				if fr.parent == nil && !isTarget(x) && !useful(x) {
					return false
				}
				if sc := x.Call.StaticCallee(); sc != nil && forced[sc] && !px.defaultInline(fr, sc) {
					for s := range sites {
						if res[s] == nil {
							res[s] = &idxSiteRes{lower: true, upper: true}
						}
						res[s].banned = true
					}
				}
			}
			return true
		},
		inline: func(fr *pxFrame, callee *ssa.Function) bool {
			if forced[callee] {
				return true
			}
			_, isReader := stop[callee]
			return !isReader
		},
		havoc: func(fr *pxFrame, lp *loopInfo) bool { return true },
		onReturn: func(fr *pxFrame, ret *ssa.Return, results []*Term, st *pxState) {
			if idx := errIndex(root.Signature); idx >= 0 && len(w.idxErrPaths) < 4096 && w.nonNilErr(ret.Results[idx], nil, nil, 0) {
				met := map[*ssa.IndexAddr]bool{}
				for s := range sites {
					if st.visits[fmt.Sprintf("idxsite:%p", s)] > 0 {
						met[s] = true
					}
				}
				w.idxErrPaths = append(w.idxErrPaths, idxErrPath{env: st.env.clone(), pos: w.instrPos(ret), met: met})
			}
		},
	})
	w.idxErrPaths = nil
	w.idxPX = px
	if os.Getenv("HLINT_PXTRACE") == fnName(root) {
		px.hooks.onBlock = func(fr *pxFrame, b *ssa.BasicBlock, st *pxState) {
			fmt.Fprintf(os.Stderr, "PX %s%s block %d (%s)\n", fr.id, fnName(fr.fn), b.Index, b.Comment)
		}
	}
	px.Run(root, Env{})
	return res, !px.Truncated
}

func (w *World) ruleIndexGuardsPX(r *Report, rule string, names []string) {
	want := map[string]bool{}
	for _, n := range names {
		want[n] = true
	}
	n := 0
	// named readers: the reader itself and the helpers it delegates part of its
	// own work to (not the readers of nested values)
	var scope map[*ssa.Function]map[string]bool
	served := map[string]bool{}
	if names != nil {
		scope = w.helperScopes(names)
	}
	for _, fn := range w.SrcFuncs() {
		if names != nil && scope[fn] == nil {
			continue
		}
		if names == nil {
			recv := fn.Signature.Recv()
			if recv == nil || !(namedIs(recv.Type(), hessianPath, "Decoder") || namedIs(recv.Type(), hessianPath, "Encoder")) {
				continue
			}
		}
		var order []*ssa.IndexAddr
		sites := map[*ssa.IndexAddr]bool{}
		label := map[*ssa.IndexAddr]string{}
		for _, b := range fn.Blocks {
			for _, in := range b.Instrs {
				ia, ok := in.(*ssa.IndexAddr)
				if !ok {
					continue
				}
				owner, fld, ok := w.fieldOfLoad(ia.X)
				if !ok || (owner != "Decoder" && owner != "Encoder") {
					continue
				}
				if _, isSl := ia.X.Type().Underlying().(*types.Slice); !isSl {
					continue
				}
				sites[ia] = true
				order = append(order, ia)
				label[ia] = fmt.Sprintf("%s · index #%d into %s.%s", fnName(fn), len(order), owner, w.fieldName(owner, fld))
			}
		}
		if len(order) == 0 {
			continue
		}
		n += len(order)
		for nm := range scope[fn] {
			served[nm] = true
		}
		res, complete := w.pxIndexRun(fn, sites, nil)
		for _, ia := range order {
			sr := res[ia]
			switch {
			case !complete:
				r.undecided(rule, label[ia], w.instrPos(ia), "path exploration truncated")
			case sr == nil:
				r.undecided(rule, label[ia], w.instrPos(ia), "the access is not reached by the path exploration")
			case sr.bad == 0:
				r.add(rule, label[ia], w.instrPos(ia), true, fmt.Sprintf("%s (all %d paths)", sr.fact, sr.met))
			default:
				ok, why := w.indexProvenInCallers([]*ssa.Function{fn}, ia)
				if ok {
					r.add(rule, label[ia], w.instrPos(ia), true, "guarded in every caller: "+why)
				} else {
					fact := fmt.Sprintf("%s (%d of %d paths)", sr.fact, sr.bad, sr.met)
					if why != "" {
						fact += "; " + why
					}
					r.add(rule, label[ia], w.instrPos(ia), false, fact)
				}
			}
		}
	}
	if names == nil {
		r.floor(rule+" (table index uses)", n, 4)
	} else {
		// every named reader reaches a checked table access (itself or through a helper)
		r.floor(rule+" (readers whose table access is checked)", len(served), len(names))
	}
	_ = want
}

// indexProvenInCallers: the access ia is proven in the context of every caller
// of the outermost function of chain (chain[0] holds the access; the others
// are callers already tried), at most three levels up.
func (w *World) indexProvenInCallers(chain []*ssa.Function, ia *ssa.IndexAddr) (bool, string) {
	top := chain[len(chain)-1]
	callers, ok := w.staticCallersOf(top)
	if !ok || len(chain) > 3 {
		return false, fnName(top) + " has callers that cannot be followed"
	}
	forced := map[*ssa.Function]bool{}
	for _, f := range chain {
		forced[f] = true
	}
	var oks []string
	for _, c := range callers {
		if forced[c] {
			return false, "recursive caller " + fnName(c)
		}
		res, complete := w.pxIndexRun(c, map[*ssa.IndexAddr]bool{ia: true}, forced)
		sr := res[ia]
		switch {
		case !complete:
			return false, "exploration of caller " + fnName(c) + " truncated"
		case sr == nil:
			oks = append(oks, fnName(c)+" (unreachable)")
		case sr.banned:
			return false, "a call in " + fnName(c) + " is not stepped into"
		case sr.bad > 0:
			ok2, why := w.indexProvenInCallers(append(append([]*ssa.Function(nil), chain...), c), ia)
			if !ok2 {
				return false, "unguarded in caller " + fnName(c) + ": " + sr.fact + "; " + why
			}
			oks = append(oks, fnName(c)+" ← "+why)
		default:
			oks = append(oks, fnName(c))
		}
	}
	return true, strings.Join(oks, ", ")
}

// helperScopes: for each named function, the function itself and the in-package
// functions it reaches by static calls through functions that cannot reach the
// value dispatch (ReadData) — the helpers a reader delegates part of its own
// work to, as opposed to the readers of nested values.  Result: function ->
// names of the roots it works for.
func (w *World) helperScopes(names []string) map[*ssa.Function]map[string]bool {
	out := map[*ssa.Function]map[string]bool{}
	reachesRD := w.reachesReadData()
	for _, name := range names {
		root := w.fn(name)
		if root == nil {
			continue
		}
		seen := map[*ssa.Function]bool{}
		var walk func(fn *ssa.Function)
		walk = func(fn *ssa.Function) {
			if seen[fn] {
				return
			}
			seen[fn] = true
			if out[fn] == nil {
				out[fn] = map[string]bool{}
			}
			out[fn][name] = true
			for _, cs := range w.callSitesIn(fn) {
				sc := cs.call.Call.StaticCallee()
				if sc == nil || !w.inPkg(sc) || sc.Blocks == nil || reachesRD == nil || reachesRD[sc] {
					continue
				}
				walk(sc)
			}
		}
		walk(root)
	}
	return out
}

// ruleIndexGuardsTightPX — C03.R7: a table-index guard refuses only invalid
// indices.  For every table access of the decoder, the function holding it is
// explored as for C14.R1 (helpers stepped into); at every return of a non-nil
// error on a path that has constrained the index (a comparison refined it),
// either the index is negative there or the path knows index >= len(table).
// `index <= 0` for `index < 0` — in the reader, or in a range helper it calls —
// leaves a path to the error return on which the index may be 0 with nothing
// known about the length: the first type name / class definition / object of
// the stream can no longer be referred to.
func (w *World) ruleIndexGuardsTightPX(r *Report, rule string) {
	n := 0
	for _, fn := range w.SrcFuncs() {
		recv := fn.Signature.Recv()
		if recv == nil || !namedIs(recv.Type(), hessianPath, "Decoder") {
			continue
		}
		sites := map[*ssa.IndexAddr]bool{}
		var order []*ssa.IndexAddr
		for _, b := range fn.Blocks {
			for _, in := range b.Instrs {
				ia, ok := in.(*ssa.IndexAddr)
				if !ok {
					continue
				}
				owner, _, ok := w.fieldOfLoad(ia.X)
				if !ok || owner != "Decoder" {
					continue
				}
				if _, isSl := ia.X.Type().Underlying().(*types.Slice); !isSl {
					continue
				}
				sites[ia] = true
				order = append(order, ia)
			}
		}
		if len(order) == 0 {
			continue
		}
		// the function that reports the refusal: the holder of the access, or — for
		// an accessor that answers (value, ok) — each of its callers
		type rootRun struct {
			root   *ssa.Function
			forced map[*ssa.Function]bool
		}
		var runs []rootRun
		if errIndex(fn.Signature) >= 0 {
			runs = append(runs, rootRun{fn, nil})
		} else if callers, ok := w.staticCallersOf(fn); ok {
			for _, c := range callers {
				if errIndex(c.Signature) >= 0 {
					runs = append(runs, rootRun{c, map[*ssa.Function]bool{fn: true}})
				}
			}
		}
		for _, rr := range runs {
			res, complete := w.pxIndexRun(rr.root, sites, rr.forced)
			paths, px := w.idxErrPaths, w.idxPX
			for i, ia := range order {
				sr := res[ia]
				if sr == nil || sr.it == nil {
					continue
				}
				if _, isC := ia.Index.(*ssa.Const); isC {
					continue
				}
				label := fmt.Sprintf("%s · index #%d", fnName(fn), i+1)
				if rr.root != fn {
					label += " · reported by " + fnName(rr.root)
				}
				if !complete {
					r.undecided(rule, label, w.instrPos(ia), "path exploration truncated")
					continue
				}
				n++
				seen, bad, where := 0, 0, ""
				for _, ep := range paths {
					constrained := false
					if ep.met[ia] {
						continue
					}
					for k := range ep.env {
						if strings.Contains(k, sr.it.key) || (sr.it.K == TConv && sr.it.A != nil && strings.Contains(k, sr.it.A.key)) {
							constrained = true
							break
						}
					}
					if !constrained {
						continue
					}
					seen++
					I, _ := px.f.Eval(sr.it, ep.env)
					if I != nil && (I.Empty() || I.Max().Sign() < 0) {
						continue
					}
					is1 := func(k string, v int64) bool {
						s, has := ep.env[k]
						return has && s.Equal(single(v))
					}
					a, b := sr.it.key, sr.lt.key
					if is1("("+a+" >= "+b+")", 1) || is1("("+a+" < "+b+")", 0) || is1("("+b+" <= "+a+")", 1) || is1("("+b+" > "+a+")", 0) {
						continue
					}
					// the unsigned spelling decides both sides at once
					uns := false
					for _, ut := range []string{"uint", "uint64", "uint32", "uintptr"} {
						ua, ub := "conv:"+ut+"("+a+")", "conv:"+ut+"("+b+")"
						if is1("("+ua+" >= "+ub+")", 1) || is1("("+ua+" < "+ub+")", 0) || is1("("+ub+" <= "+ua+")", 1) || is1("("+ub+" > "+ua+")", 0) {
							uns = true
						}
					}
					if uns {
						continue
					}
					bad++
					if where == "" {
						where = fmt.Sprintf("the error return at %s is reached with index %s ∈ %s and nothing known about %s", ep.pos, a, I, b)
					}
				}
				if bad > 0 {
					r.add(rule, label, w.instrPos(ia), false, where+": a non-negative index that may be in range is refused — index 0 is the first entry of the table")
				} else {
					r.add(rule, label, w.instrPos(ia), true, fmt.Sprintf("on the %d error paths that constrain the index it is negative or known to be >= the table length", seen))
				}
			}
		}
	}
	r.floor(rule+" (decoder table accesses with a computed index)", n, 2)
}
