package main

import (
	"strings"
	"fmt"
	"go/token"

	"golang.org/x/tools/go/ssa"
)

func init() {
	register("C10", rulesC10,
		"Decides structural necessary conditions of 'timestamps keep their instant at millisecond resolution over years 1..9999': "+
			"R1 the compact (4-octet) form is reached only when the sub-second part of the instant is provably {0} (interval refinement of Nanosecond() / UnixNano()%1e9 along the guards); "+
			"R2 every octet written is a big-endian window of a value whose proven interval fits the octets written (the 4-octet form needs Unix() ∈ int32), the 8-octet form carries the millisecond instant (UnixMilli), and encoder getter and decoder constructor agree on the unit per form; "+
			"R3 no arithmetic on the wire value in the decoder can leave int64 on the property's domain [-62135596800000, 253402300799999] ms, and the partial getter UnixNano (undefined outside 1678..2262) is not called on the encode path; "+
			"R4 the zero time is emitted as null under an IsZero() guard; R5 inside the struct path time.Time is recognised before any class definition is emitted and the struct-field dispatcher has a date arm. "+
			"Does NOT decide the calendar arithmetic of package time, nor that truncation towards -inf stays within one millisecond (UnixMilli's contract).",
		"obligation = one form of encodeDate / one arithmetic instruction of decodeDateValue / one getter call / one dispatcher arm; non-trivial = needs a refined interval",
		"package time: UnixMilli/Unix/Nanosecond contracts; time.UnixMilli and time.Unix accept the whole property domain")
}

const dateDomLo, dateDomHi = -62135596800000, 253402300799999

func rulesC10(w *World, r *Report) {
	// a zero timestamp travels as null: as a list element it must be stored as
	// its own (zero) value, not left to whatever a reused destination held
	// (seeded C10m: one scratch cell per list, SetValue does nothing for null)
	includeIf(w, r, "C01", "every element read for a typed list is stored as its own converted value", 2, func(o *Obligation) bool {
		return strings.Contains(o.Key, "C01.R4") || strings.Contains(o.Key, "C01.R9")
	})
	w.dateEncoderForms(r, "C10.R1 compact form only when exact", "C10.R2 octet windows fit the value", "C10.R4 zero time is null", false, "")
	w.ruleDecoderForms(r, "C10.R2 reader accepts both date forms", "date")
	w.rulePairOctets(r, "C10.R2 encoder/decoder octet agreement", "date")
	w.ruleWrapperForwards(r, "C10.R2 the date read wrapper forwards the decoder", "date")
	w.ruleDateUnits(r, "C10.R2 encoder getter and decoder constructor agree on the unit")
	w.ruleDecoderInverts(r, "C10.R6 the decoder rebuilds the instant's count bit for bit", "date")
	w.ruleDateArith(r, "C10.R3 no overflow on the declared domain")
	w.ruleDateStructPath(r, "C10.R5 time.Time recognised inside the struct path")
	w.ruleEveryValueStored(r, "C10.R4 a zero time (null) element keeps its position")
	w.ruleDateNeverReadFresh(r, "C10.R4 a date is read only behind a dispatcher that has seen the tag")
}

// ruleDateArith: arithmetic on the wire value in decodeDateValue, partial
// getters in encodeDate.
func (w *World) ruleDateArith(r *Report, rule string) {
	c := w.codecs()["date"]
	if c == nil || c.Dec == nil || c.Enc == nil {
		r.undecided(rule, "date codec", "-", "not found")
		return
	}
	fd := w.flow(c.Dec)
	n := 0
	for _, b := range c.Dec.Blocks {
		for _, in := range b.Instrs {
			bo, ok := in.(*ssa.BinOp)
			if !ok {
				continue
			}
			switch bo.Op {
			case token.MUL, token.ADD, token.SUB, token.SHL:
			default:
				continue
			}
			bits, _, isInt := intTypeInfo(w, bo.Type())
			if !isInt || bits < 64 {
				continue
			}
			_, cx := bo.X.(*ssa.Const)
			_, cy := bo.Y.(*ssa.Const)
			if cx && cy {
				continue
			}
			n++
			env := fd.At(b).clone()
			for _, op := range []ssa.Value{bo.X, bo.Y} {
				if _, isC := op.(*ssa.Const); !isC {
					env[fd.term(op).Key()] = mkSet(dateDomLo, dateDomHi)
				}
			}
			res, fl := fd.Eval(fd.term(bo), env)
			r.add(rule, fmt.Sprintf("%s · %s#%d", fnName(c.Dec), bo.Op, n), w.instrPos(bo), !fl.Overflow,
				fmt.Sprintf("with the wire value in [%d,%d] ms the result ranges over %s (overflow=%v)", int64(dateDomLo), int64(dateDomHi), res, fl.Overflow))
		}
	}
	if n == 0 {
		r.add(rule, fnName(c.Dec)+" · arithmetic census", w.pos(c.Dec.Pos()), true, "no 64-bit arithmetic is applied to the wire value before the time constructor")
	}
	m := 0
	for _, cs := range w.callSitesIn(c.Enc) {
		if cs.callee == "(time.Time).UnixNano" {
			m++
			r.add(rule, fmt.Sprintf("%s · %s", fnName(c.Enc), cs.key()), w.instrPos(cs.call), false, "UnixNano is undefined outside 1678..2262 (its documentation) and is applied to an unguarded instant")
		}
	}
	if m == 0 {
		r.add(rule, fnName(c.Enc)+" · partial getters", w.pos(c.Enc.Pos()), true, "no call of (time.Time).UnixNano on the encode path")
	}
}

// ruleDateStructPath: in the struct writer the time.Time test dominates
// class-definition emission; the field dispatcher has a date arm.
func (w *World) ruleDateStructPath(r *Report, rule string) {
	wo := w.fn("(*Encoder).writeObject")
	if wo == nil {
		r.undecided(rule, "(*Encoder).writeObject", "-", "anchor not found")
		return
	}
	// read from the writer's paths (helpers stepped into): on every path, whatever
	// belongs to the object production — a header octet, an entry appended to the
	// definition table — comes after a dynamic-type test for time.Time.  Where the
	// test sits (the writer, a "date or ref" helper) does not matter.
	wi := w.writerPaths(wo)
	if wi.truncated {
		r.undecided(rule, "(*Encoder).writeObject", w.pos(wo.Pos()), "path exploration exceeded its budget")
		return
	}
	tests, emitting, bad := 0, 0, ""
	testPos, badPos := "", ""
	for _, p := range wi.paths {
		tested := false
		counted := false
		for _, e := range p.Trace {
			switch {
			case e.Kind == "typetest" && e.Extra == "time.Time":
				if !tested {
					tests++
					if testPos == "" {
						testPos = e.Pos
					}
				}
				tested = true
			case e.Kind == "octets", e.Kind == "fieldstore" && len(e.Args) == 1 && e.Args[0] != nil && e.Args[0].K == TPure && e.Args[0].Name == "append":
				if !counted {
					emitting++
					counted = true
				}
				if !tested && bad == "" {
					what := "a header octet"
					if e.Kind == "fieldstore" {
						what = "an entry appended to the definition table"
					}
					bad, badPos = fmt.Sprintf("%s at %s is reached on a path that has not tested the value for time.Time", what, e.Pos), e.Pos
				}
			}
		}
	}
	switch {
	case tests == 0:
		r.add(rule, "(*Encoder).writeObject · time.Time test", w.pos(wo.Pos()), false, "no type test for time.Time in the struct writer: a timestamp field is written as an object")
	case bad != "":
		r.add(rule, "(*Encoder).writeObject · time.Time test precedes class definition", badPos, false, bad)
	default:
		r.add(rule, "(*Encoder).writeObject · time.Time test precedes class definition", testPos, true,
			fmt.Sprintf("on each of the %d paths that emit a definition or an instance header the time.Time test comes first", emitting))
	}
	r.floor(rule+" (object-emitting paths of the struct writer)", emitting, 2)
	rs := w.fn("(*Decoder).readStruct")
	if rs == nil {
		r.undecided(rule, "(*Decoder).readStruct", "-", "anchor not found")
		return
	}
	d := w.dispatchOf(rs, nil)
	if d == nil {
		r.undecided(rule, "(*Decoder).readStruct · dispatch", "-", "dispatcher not recognised")
		return
	}
	for _, t := range []int{0x4a, 0x4b} {
		a := d.arm[t]
		r.add(rule, fmt.Sprintf("(*Decoder).readStruct · tag x%02x", t), d.pos[t], a == "date", fmt.Sprintf("tag x%02x resolves to %q in the struct-field dispatcher", t, a))
	}
	a := d.arm['N']
	r.add(rule, "(*Decoder).readStruct · tag N", d.pos['N'], a == "null", fmt.Sprintf("tag N resolves to %q (zero time comes back as the untouched zero field)", a))
}

// ruleDateNeverReadFresh — C10.R4: the encoder writes the zero time as null,
// so wherever a date can stand on the wire a null can stand too.  The date
// reader only knows the two date tags; it is correct only behind a dispatcher
// that has already seen the tag (null goes to the null arm).  Obligation per
// call of the date reader (the decoder function of the date codec and its
// Decoder wrapper) from the decode path: the tag argument is not the "read a
// fresh tag" constant — a fast path that reads the elements of a []time.Time
// with readDate(_tagRead) fails on the first zero time.
func (w *World) ruleDateNeverReadFresh(r *Report, rule string) {
	c := w.codecs()["date"]
	if c == nil || c.Dec == nil {
		r.undecided(rule, "date codec", "-", "not found")
		return
	}
	readers := map[*ssa.Function]bool{c.Dec: true}
	if c.Wrap != nil {
		readers[c.Wrap] = true
	}
	reach := w.reachPkg(w.decodeEntryPoints()...)
	n := 0
	for _, fn := range w.SrcFuncs() {
		if readers[fn] || (!reach[fn] && !reach[rootFn(fn)]) {
			continue
		}
		for _, cs := range w.callSitesIn(fn) {
			sc := cs.call.Call.StaticCallee()
			if sc == nil || !readers[sc] {
				continue
			}
			n++
			// the flag argument: the int32 parameter
			var flag ssa.Value
			for i, a := range cs.call.Call.Args {
				if i < len(sc.Params) && typeStr(sc.Params[i].Type()) == "int32" {
					flag = a
				}
			}
			fresh := false
			if k, ok := flag.(*ssa.Const); ok && k.Value != nil && k.Int64() == -1 {
				fresh = true
			}
			r.add(rule, fnName(fn)+" · "+cs.key(), w.instrPos(cs.call), !fresh, map[bool]string{
				false: "the date reader is handed a tag the caller has already classified: a null (zero time) never reaches it",
				true:  "the date reader is asked to read a fresh tag: the null the encoder writes for a zero time is refused (\"error date tag: 0x4e\")"}[fresh])
		}
	}
	r.floor(rule+" (calls of the date reader on the decode path)", n, 1)
}
