package main

import (
	"fmt"
	"go/token"
	"go/types"

	"golang.org/x/tools/go/ssa"
)

func init() {
	register("C17", rulesC17,
		"Decides the property under Go's channel semantics (sufficient): R1 every channel operation reachable from the pool's Get/Return is a case of a select with a default (non-blocking), and no other blocking construct (bare send/receive, range over a channel, sync/time.Sleep call) is reachable, including through the factories; "+
			"R2 the channel is created exactly once, in the constructor, buffered with capacity = the size parameter, and the field is never reassigned; "+
			"R3 value flow: Get returns either the received element or the factory's result and stores it nowhere else, Return's parameter has exactly one use (the send); every factory returns a value allocated during the call. "+
			"A buffered channel delivers each element once and never holds more than its capacity, hence: one holder at a time, never blocks, never more than size retained, fresh on empty. Not covered: a caller that returns the same object twice.",
		"obligation = one channel operation / channel creation / store to the channel field / use of the pooled value / factory return; enumerated over the pool type's methods and everything reachable from them",
		"Go channel semantics: select with default never blocks; a buffered channel holds at most cap elements and delivers each once")
}

func rulesC17(w *World, r *Report) {
	// the pool type: named struct of the package with a channel field
	var pool *types.Named
	var chanField int = -1
	for _, name := range w.TPkg.Scope().Names() {
		tn, ok := w.TPkg.Scope().Lookup(name).(*types.TypeName)
		if !ok {
			continue
		}
		n, ok := tn.Type().(*types.Named)
		if !ok {
			continue
		}
		st, ok := n.Underlying().(*types.Struct)
		if !ok {
			continue
		}
		for i := 0; i < st.NumFields(); i++ {
			if _, ok := st.Field(i).Type().Underlying().(*types.Chan); ok {
				pool, chanField = n, i
			}
		}
	}
	if pool == nil {
		r.undecided("C17.anchor", "pool type", "-", "no struct type with a channel field found in the package")
		return
	}
	r.role("pool type", []string{pool.Obj().Name()})
	// census: the rules below are written for the channel design; every other
	// type of the package that can stand behind the pool interface (Get() T /
	// Return(T), found by shape) hands objects over by a discipline these rules
	// do not read — it is reported as not decided, never passed over.
	nImpl := 0
	for _, name := range w.TPkg.Scope().Names() {
		itn, ok := w.TPkg.Scope().Lookup(name).(*types.TypeName)
		if !ok {
			continue
		}
		iface, ok := itn.Type().Underlying().(*types.Interface)
		if !ok || !types.Implements(types.NewPointer(pool), iface) || iface.NumMethods() == 0 {
			continue
		}
		for _, name2 := range w.TPkg.Scope().Names() {
			tn, ok := w.TPkg.Scope().Lookup(name2).(*types.TypeName)
			if !ok || tn.IsAlias() {
				continue
			}
			n, ok := tn.Type().(*types.Named)
			if !ok || types.IsInterface(n) {
				continue
			}
			if !types.Implements(n, iface) && !types.Implements(types.NewPointer(n), iface) {
				continue
			}
			nImpl++
			isChan := n == pool
			key := fmt.Sprintf("%s implements %s", n.Obj().Name(), itn.Name())
			if isChan {
				r.add("C17.R4 every pool implementation is the channel design", key, w.pos(tn.Pos()), true, "the implementation examined by R1-R3 (buffered channel, select with default)")
			} else {
				r.undecided("C17.R4 every pool implementation is the channel design", key, w.pos(tn.Pos()), "a second implementation of the pool interface without the channel field: its hand-over discipline (one holder at a time, never blocks, bounded) is not decided by the channel rules — e.g. a Load followed by a Store on an atomic cell lets two overlapping Gets take the same object")
			}
		}
	}
	r.floor("C17.R4 pool implementations examined", nImpl, 1)
	var methods []*ssa.Function
	for _, fn := range w.SrcFuncs() {
		if recv := fn.Signature.Recv(); recv != nil && namedIs(recv.Type(), hessianPath, pool.Obj().Name()) {
			methods = append(methods, fn)
		}
	}
	r.role("pool methods", fnNames(methods))
	// constructor(s): functions containing a MakeChan
	var ctors []*ssa.Function
	var factories []*ssa.Function
	for _, fn := range w.SrcFuncs() {
		for _, b := range fn.Blocks {
			for _, in := range b.Instrs {
				if _, ok := in.(*ssa.MakeChan); ok {
					ctors = append(ctors, fn)
				}
			}
		}
	}
	// factories: the functions passed to a constructor
	isFactory := map[*ssa.Function]bool{}
	factorySites := map[*ssa.Function]bool{} // functions holding a constructor call whose factory was resolved
	for _, fn := range w.SrcFuncs() {
		for _, cs := range w.callSitesIn(fn) {
			sc := cs.call.Call.StaticCallee()
			isCtor := false
			for _, c := range ctors {
				if sc == c {
					isCtor = true
				}
			}
			if !isCtor {
				continue
			}
			// the function-typed arguments: a literal, a named function, a method
			// value, or the result of a maker function that returns one of those
			for ai, a := range cs.call.Call.Args {
				if _, isFn := a.Type().Underlying().(*types.Signature); !isFn {
					continue
				}
				fs, ok := w.funcValuesOf(a)
				if !ok {
					r.undecided("C17.R3 pooled value has a single owner", fmt.Sprintf("%s · %s · factory argument #%d", fnName(fn), cs.key(), ai), w.instrPos(cs.call), "the function handed to the pool constructor is not statically known: its freshness cannot be examined")
				}
				if ok && len(fs) > 0 {
					factorySites[fn] = true
				}
				for _, f := range fs {
					if !isFactory[f] {
						isFactory[f] = true
						factories = append(factories, f)
					}
				}
			}
		}
	}
	r.role("pool constructors", fnNames(ctors))
	r.role("factories", fnNames(factories))
	roots := append(append([]*ssa.Function{}, methods...), factories...)
	reach := w.reach(roots...)

	// R1: blocking constructs
	nOps := 0
	for fn := range reach {
		if fn.Blocks == nil {
			continue
		}
		inPkg := w.inPkg(fn)
		if inPkg {
			r.fnSeen(fnName(fn))
		}
		cnt := map[string]int{}
		for _, b := range fn.Blocks {
			for _, in := range b.Instrs {
				switch x := in.(type) {
				case *ssa.Select:
					if !inPkg {
						continue
					}
					nOps++
					cnt["select"]++
					dirs := ""
					for _, st := range x.States {
						if st.Dir == types.SendOnly {
							dirs += "send "
						} else {
							dirs += "recv "
						}
					}
					r.add("C17.R1 channel operations never block", fmt.Sprintf("%s · select#%d [%s]", fnName(fn), cnt["select"], dirs), w.instrPos(x), !x.Blocking,
						map[bool]string{true: "select has a default case (non-blocking)", false: "select without default: blocks when no case is ready"}[!x.Blocking])
				case *ssa.Send:
					if !inPkg {
						continue
					}
					nOps++
					cnt["send"]++
					r.add("C17.R1 channel operations never block", fmt.Sprintf("%s · bare send#%d", fnName(fn), cnt["send"]), w.instrPos(x), false, "channel send outside a select with default: blocks when the pool is full")
				case *ssa.UnOp:
					if x.Op == token.ARROW && inPkg {
						nOps++
						cnt["recv"]++
						r.add("C17.R1 channel operations never block", fmt.Sprintf("%s · bare receive#%d", fnName(fn), cnt["recv"]), w.instrPos(x), false, "channel receive outside a select with default: blocks when the pool is empty")
					}
				case *ssa.Call:
					if sc := x.Call.StaticCallee(); sc != nil && sc.Pkg != nil && inPkg {
						p := sc.Pkg.Pkg.Path()
						if p == "sync" || (p == "time" && sc.Name() == "Sleep") {
							nOps++
							cnt["sync"]++
							r.add("C17.R1 channel operations never block", fmt.Sprintf("%s · %s#%d", fnName(fn), qualifiedFnName(sc), cnt["sync"]), w.instrPos(x), false, "blocking primitive reachable from the pool")
						}
					}
				case *ssa.Go:
					if inPkg {
						nOps++
						r.add("C17.R1 channel operations never block", fnName(fn)+" · go statement", w.instrPos(x), false, "goroutine started from the pool path")
					}
				}
			}
		}
	}
	r.floor("C17.R1 channel operations", nOps, 2)

	// R2: creation and assignment of the channel
	nMk := 0
	for _, fn := range ctors {
		for _, b := range fn.Blocks {
			for _, in := range b.Instrs {
				mk, ok := in.(*ssa.MakeChan)
				if !ok {
					continue
				}
				nMk++
				sz := mk.Size
				for {
					if cv, ok := sz.(*ssa.Convert); ok {
						sz = cv.X
						continue
					}
					if ct, ok := sz.(*ssa.ChangeType); ok {
						sz = ct.X
						continue
					}
					break
				}
				p, isParam := sz.(*ssa.Parameter)
				ok2 := isParam
				fact := "capacity operand is " + mk.Size.String()
				if isParam {
					fact = "capacity is the constructor's parameter " + p.Name()
				}
				r.add("C17.R2 channel created once with capacity = size", fmt.Sprintf("%s · make(chan)#%d", fnName(fn), nMk), w.instrPos(mk), ok2, fact)
			}
		}
	}
	if nMk != 1 {
		r.add("C17.R2 channel created once with capacity = size", "number of channel creations", "-", false, fmt.Sprintf("%d make(chan) sites in the package, expected 1", nMk))
	}
	// stores to the channel field
	nSt := 0
	for _, fn := range w.SrcFuncs() {
		for _, b := range fn.Blocks {
			for _, in := range b.Instrs {
				st, ok := in.(*ssa.Store)
				if !ok {
					continue
				}
				fa, ok := st.Addr.(*ssa.FieldAddr)
				if !ok || fa.Field != chanField || !namedIs(fa.X.Type().Underlying().(*types.Pointer).Elem(), hessianPath, pool.Obj().Name()) {
					continue
				}
				nSt++
				isCtor := false
				for _, c := range ctors {
					if c == fn {
						isCtor = true
					}
				}
				_, fromMk := st.Val.(*ssa.MakeChan)
				r.add("C17.R2 channel created once with capacity = size", fmt.Sprintf("%s · store to the channel field #%d", fnName(fn), nSt), w.instrPos(st), isCtor && fromMk,
					map[bool]string{true: "initialised in the constructor from make(chan)", false: "the channel field is assigned outside the constructor or from another value"}[isCtor && fromMk])
			}
		}
	}
	r.floor("C17.R2 stores to the channel field", nSt, 1)

	// R3: value flow in Get / Return
	for _, m := range methods {
		sig := m.Signature
		switch {
		case sig.Params().Len() == 0 && sig.Results().Len() == 1: // Get
			w.poolGetFlowPX(r, m)
		case sig.Params().Len() == 1 && sig.Results().Len() == 0: // Return
			w.poolReturnFlow(r, m)
		}
	}
	// factories return fresh values
	for _, fc := range factories {
		ok, fact := w.returnsFresh(fc, 0)
		r.add("C17.R3 pooled value has a single owner", fnName(fc)+" · factory result is fresh", w.pos(fc.Pos()), ok, fact)
	}
	// floor: the exported pool constructors of the package (encoder, decoder,
	// serializer pool) each reach, through static calls, a constructor call
	// whose factory was resolved and examined above.  Counting entry points
	// served instead of function literals: one literal parameterised by a kind
	// constant serves all three (its every return is examined by returnsFresh).
	served := 0
	for _, fn := range w.SrcFuncs() {
		if fn.Signature.Recv() != nil || fn.Object() == nil || !fn.Object().Exported() || fn.Parent() != nil {
			continue
		}
		for g := range w.reachStaticPkg(fn) {
			if factorySites[g] {
				served++
				break
			}
		}
	}
	r.floor("C17.R3 factories", served, 3)
	r.floor("C17.R3 factory functions examined", len(factories), 1)
}

// returnsFresh: every return of fn yields a value allocated during the call
// (an Alloc, possibly boxed, or the result of a function that returnsFresh).
func (w *World) returnsFresh(fn *ssa.Function, depth int) (bool, string) {
	if fn.Blocks == nil || depth > 4 {
		return false, "no body / too deep"
	}
	for _, b := range fn.Blocks {
		ret, ok := b.Instrs[len(b.Instrs)-1].(*ssa.Return)
		if !ok || len(ret.Results) == 0 {
			continue
		}
		v := ret.Results[0]
		for {
			if mi, ok := v.(*ssa.MakeInterface); ok {
				v = mi.X
				continue
			}
			if ci, ok := v.(*ssa.ChangeInterface); ok {
				v = ci.X
				continue
			}
			break
		}
		switch x := v.(type) {
		case *ssa.Alloc:
			if !x.Heap {
				return false, "returns a stack slot"
			}
			// deep: nothing that can carry mutable state is copied into the new
			// object from outside the call (a shallow copy of a prototype shares
			// the prototype's encoder / decoder / buffers with every "fresh" object)
			if ok, f := w.freshContent(x, depth); !ok {
				return false, f
			}
		case *ssa.Call:
			sc := x.Call.StaticCallee()
			if sc == nil {
				return false, "returns the result of a dynamic call at " + w.instrPos(ret)
			}
			if ok, f := w.returnsFresh(sc, depth+1); !ok {
				return false, fnName(sc) + ": " + f
			}
			// what the constructor is given must not carry shared mutable state either
			for _, a := range x.Call.Args {
				if ok, f := w.freshOperand(a, depth); !ok {
					return false, "argument of " + fnName(sc) + " at " + w.instrPos(x) + ": " + f
				}
			}
		default:
			return false, "returns " + v.String() + " at " + w.instrPos(ret) + ", not a value allocated in the call"
		}
	}
	return true, "every return yields a value allocated during the call"
}

// carriesRefs: a value of type t can hold a reference to mutable memory.  The
// caller-supplied name/type maps are shared read-only by contract (C12) and
// do not count.
func carriesRefs(t types.Type, depth int) bool {
	if depth > 6 {
		return true
	}
	switch u := t.Underlying().(type) {
	case *types.Pointer, *types.Slice, *types.Chan, *types.Interface, *types.Signature:
		return true
	case *types.Map:
		ts := typeStr(t)
		return !(ts == "map[string]string" || ts == "map[string]reflect.Type")
	case *types.Struct:
		for i := 0; i < u.NumFields(); i++ {
			if carriesRefs(u.Field(i).Type(), depth+1) {
				return true
			}
		}
	case *types.Array:
		return carriesRefs(u.Elem(), depth+1)
	}
	return false
}

// freshContent: every store into the object allocated by al (whole or by
// field) stores a value that cannot alias memory older than the call.
func (w *World) freshContent(al *ssa.Alloc, depth int) (bool, string) {
	var walk func(addr ssa.Value, d int) (bool, string)
	walk = func(addr ssa.Value, d int) (bool, string) {
		if d > 3 || addr.Referrers() == nil {
			return true, ""
		}
		for _, ref := range *addr.Referrers() {
			switch x := ref.(type) {
			case *ssa.Store:
				if x.Addr != addr {
					continue
				}
				if ok, f := w.freshOperand(x.Val, depth); !ok {
					return false, "the new object is filled at " + w.instrPos(x) + " with " + f
				}
			case *ssa.FieldAddr:
				if ok, f := walk(x, d+1); !ok {
					return false, f
				}
			case *ssa.IndexAddr:
				if ok, f := walk(x, d+1); !ok {
					return false, f
				}
			}
		}
		return true, ""
	}
	return walk(al, 0)
}

// freshOperand: v carries no reference to memory that existed before the call:
// a constant, a value without references, a parameter (the call site answers
// for it), an allocation made here whose content is fresh, or the result of a
// function that returns fresh values.
func (w *World) freshOperand(v ssa.Value, depth int) (bool, string) {
	if depth > 5 {
		return false, "too deep"
	}
	// a package-level map / slice / pointer handed to the new object is shared by
	// every object ever produced (the exemption below is for the CALLER's maps)
	if g := loadsPackageVar(v, 0); g != nil {
		switch v.Type().Underlying().(type) {
		case *types.Map, *types.Slice, *types.Pointer, *types.Chan:
			return false, "the package variable " + g.Name() + ": every object produced shares it (a registration or write through one holder's object is seen by all the others)"
		}
	}
	if !carriesRefs(v.Type(), 0) {
		return true, ""
	}
	switch x := v.(type) {
	case *ssa.Const, *ssa.Parameter, *ssa.MakeMap, *ssa.MakeSlice, *ssa.MakeChan, *ssa.Function:
		return true, ""
	case *ssa.MakeClosure:
		return true, ""
	case *ssa.MakeInterface:
		return w.freshOperand(x.X, depth)
	case *ssa.ChangeInterface:
		return w.freshOperand(x.X, depth)
	case *ssa.ChangeType:
		return w.freshOperand(x.X, depth)
	case *ssa.Alloc:
		return w.freshContent(x, depth+1)
	case *ssa.Phi:
		for _, e := range x.Edges {
			if ok, f := w.freshOperand(e, depth+1); !ok {
				return false, f
			}
		}
		return true, ""
	case *ssa.Call:
		sc := x.Call.StaticCallee()
		if sc == nil {
			return false, "the result of a dynamic call"
		}
		if !w.inPkg(sc) {
			// library constructors (bytes.NewBuffer, bufio.NewReader …) return new objects
			return true, ""
		}
		if ok, f := w.returnsFresh(sc, depth+1); !ok {
			return false, "the result of " + fnName(sc) + " (" + f + ")"
		}
		for _, a := range x.Call.Args {
			if ok, f := w.freshOperand(a, depth+1); !ok {
				return false, f
			}
		}
		return true, ""
	case *ssa.UnOp:
		if x.Op == token.MUL {
			// a load: of a local that only ever held fresh values, or a copy of older memory
			if al, ok := x.X.(*ssa.Alloc); ok {
				return w.freshContent(al, depth+1)
			}
			return false, "a copy of " + typeStr(x.Type()) + " read through " + describeAddr(x.X) + ": the copy shares every pointer, slice and interface inside it with the original"
		}
	case *ssa.TypeAssert:
		return w.freshOperand(x.X, depth)
	case *ssa.Extract:
		return w.freshOperand(x.Tuple, depth)
	}
	return false, "a value that is not allocated in the call (" + v.String() + ")"
}

func describeAddr(a ssa.Value) string {
	switch x := a.(type) {
	case *ssa.FreeVar:
		return "the captured variable " + x.Name()
	case *ssa.Global:
		return "the package variable " + x.Name()
	case *ssa.FieldAddr:
		return "a field of " + describeAddr(x.X)
	case *ssa.UnOp:
		return describeAddr(x.X)
	}
	return a.Name()
}

// loadsPackageVar: v is (on some incoming edge) the value of a package-level variable.
func loadsPackageVar(v ssa.Value, d int) *ssa.Global {
	if d > 4 {
		return nil
	}
	switch x := v.(type) {
	case *ssa.UnOp:
		if x.Op == token.MUL {
			if g, ok := x.X.(*ssa.Global); ok {
				return g
			}
		}
	case *ssa.Phi:
		for _, e := range x.Edges {
			if g := loadsPackageVar(e, d+1); g != nil {
				return g
			}
		}
	case *ssa.ChangeType:
		return loadsPackageVar(x.X, d+1)
	}
	return nil
}
