package main

import (
	"fmt"
	"go/token"
	"go/types"

	"golang.org/x/tools/go/ssa"
)

func init() {
	register("C17", rulesC17,
		"Decides the property under Go's channel semantics (sufficient): R1 every channel operation reachable from the pool's Get/Return is a case of a select with a default (non-blocking), and no other blocking construct (bare send/receive, range over a channel, sync/time.Sleep call) is reachable, including through the factories; "+
			"R2 the channel is created exactly once, in the constructor, buffered with capacity = the size parameter, and the field is never reassigned; "+
			"R3 value flow: Get returns either the received element or the factory's result and stores it nowhere else, Return's parameter has exactly one use (the send); every factory returns a value allocated during the call. "+
			"A buffered channel delivers each element once and never holds more than its capacity, hence: one holder at a time, never blocks, never more than size retained, fresh on empty. Not covered: a caller that returns the same object twice.",
		"obligation = one channel operation / channel creation / store to the channel field / use of the pooled value / factory return; enumerated over the pool type's methods and everything reachable from them",
		"Go channel semantics: select with default never blocks; a buffered channel holds at most cap elements and delivers each once")
}

func rulesC17(w *World, r *Report) {
	// the pool type: named struct of the package with a channel field
	var pool *types.Named
	var chanField int = -1
	for _, name := range w.TPkg.Scope().Names() {
		tn, ok := w.TPkg.Scope().Lookup(name).(*types.TypeName)
		if !ok {
			continue
		}
		n, ok := tn.Type().(*types.Named)
		if !ok {
			continue
		}
		st, ok := n.Underlying().(*types.Struct)
		if !ok {
			continue
		}
		for i := 0; i < st.NumFields(); i++ {
			if _, ok := st.Field(i).Type().Underlying().(*types.Chan); ok {
				pool, chanField = n, i
			}
		}
	}
	if pool == nil {
		r.undecided("C17.anchor", "pool type", "-", "no struct type with a channel field found in the package")
		return
	}
	r.role("pool type", []string{pool.Obj().Name()})
	var methods []*ssa.Function
	for _, fn := range w.SrcFuncs() {
		if recv := fn.Signature.Recv(); recv != nil && namedIs(recv.Type(), hessianPath, pool.Obj().Name()) {
			methods = append(methods, fn)
		}
	}
	r.role("pool methods", fnNames(methods))
	// constructor(s): functions containing a MakeChan
	var ctors []*ssa.Function
	var factories []*ssa.Function
	for _, fn := range w.SrcFuncs() {
		for _, b := range fn.Blocks {
			for _, in := range b.Instrs {
				if _, ok := in.(*ssa.MakeChan); ok {
					ctors = append(ctors, fn)
				}
			}
		}
	}
	// factories: the functions passed to a constructor
	isFactory := map[*ssa.Function]bool{}
	for _, fn := range w.SrcFuncs() {
		for _, cs := range w.callSitesIn(fn) {
			sc := cs.call.Call.StaticCallee()
			isCtor := false
			for _, c := range ctors {
				if sc == c {
					isCtor = true
				}
			}
			if !isCtor {
				continue
			}
			// the function-typed arguments: a literal, a named function, a method
			// value, or the result of a maker function that returns one of those
			for ai, a := range cs.call.Call.Args {
				if _, isFn := a.Type().Underlying().(*types.Signature); !isFn {
					continue
				}
				fs, ok := w.funcValuesOf(a)
				if !ok {
					r.undecided("C17.R3 pooled value has a single owner", fmt.Sprintf("%s · %s · factory argument #%d", fnName(fn), cs.key(), ai), w.instrPos(cs.call), "the function handed to the pool constructor is not statically known: its freshness cannot be examined")
				}
				for _, f := range fs {
					if !isFactory[f] {
						isFactory[f] = true
						factories = append(factories, f)
					}
				}
			}
		}
	}
	r.role("pool constructors", fnNames(ctors))
	r.role("factories", fnNames(factories))
	roots := append(append([]*ssa.Function{}, methods...), factories...)
	reach := w.reach(roots...)

	// R1: blocking constructs
	nOps := 0
	for fn := range reach {
		if fn.Blocks == nil {
			continue
		}
		inPkg := w.inPkg(fn)
		if inPkg {
			r.fnSeen(fnName(fn))
		}
		cnt := map[string]int{}
		for _, b := range fn.Blocks {
			for _, in := range b.Instrs {
				switch x := in.(type) {
				case *ssa.Select:
					if !inPkg {
						continue
					}
					nOps++
					cnt["select"]++
					dirs := ""
					for _, st := range x.States {
						if st.Dir == types.SendOnly {
							dirs += "send "
						} else {
							dirs += "recv "
						}
					}
					r.add("C17.R1 channel operations never block", fmt.Sprintf("%s · select#%d [%s]", fnName(fn), cnt["select"], dirs), w.instrPos(x), !x.Blocking,
						map[bool]string{true: "select has a default case (non-blocking)", false: "select without default: blocks when no case is ready"}[!x.Blocking])
				case *ssa.Send:
					if !inPkg {
						continue
					}
					nOps++
					cnt["send"]++
					r.add("C17.R1 channel operations never block", fmt.Sprintf("%s · bare send#%d", fnName(fn), cnt["send"]), w.instrPos(x), false, "channel send outside a select with default: blocks when the pool is full")
				case *ssa.UnOp:
					if x.Op == token.ARROW && inPkg {
						nOps++
						cnt["recv"]++
						r.add("C17.R1 channel operations never block", fmt.Sprintf("%s · bare receive#%d", fnName(fn), cnt["recv"]), w.instrPos(x), false, "channel receive outside a select with default: blocks when the pool is empty")
					}
				case *ssa.Call:
					if sc := x.Call.StaticCallee(); sc != nil && sc.Pkg != nil && inPkg {
						p := sc.Pkg.Pkg.Path()
						if p == "sync" || (p == "time" && sc.Name() == "Sleep") {
							nOps++
							cnt["sync"]++
							r.add("C17.R1 channel operations never block", fmt.Sprintf("%s · %s#%d", fnName(fn), qualifiedFnName(sc), cnt["sync"]), w.instrPos(x), false, "blocking primitive reachable from the pool")
						}
					}
				case *ssa.Go:
					if inPkg {
						nOps++
						r.add("C17.R1 channel operations never block", fnName(fn)+" · go statement", w.instrPos(x), false, "goroutine started from the pool path")
					}
				}
			}
		}
	}
	r.floor("C17.R1 channel operations", nOps, 2)

	// R2: creation and assignment of the channel
	nMk := 0
	for _, fn := range ctors {
		for _, b := range fn.Blocks {
			for _, in := range b.Instrs {
				mk, ok := in.(*ssa.MakeChan)
				if !ok {
					continue
				}
				nMk++
				sz := mk.Size
				for {
					if cv, ok := sz.(*ssa.Convert); ok {
						sz = cv.X
						continue
					}
					if ct, ok := sz.(*ssa.ChangeType); ok {
						sz = ct.X
						continue
					}
					break
				}
				p, isParam := sz.(*ssa.Parameter)
				ok2 := isParam
				fact := "capacity operand is " + mk.Size.String()
				if isParam {
					fact = "capacity is the constructor's parameter " + p.Name()
				}
				r.add("C17.R2 channel created once with capacity = size", fmt.Sprintf("%s · make(chan)#%d", fnName(fn), nMk), w.instrPos(mk), ok2, fact)
			}
		}
	}
	if nMk != 1 {
		r.add("C17.R2 channel created once with capacity = size", "number of channel creations", "-", false, fmt.Sprintf("%d make(chan) sites in the package, expected 1", nMk))
	}
	// stores to the channel field
	nSt := 0
	for _, fn := range w.SrcFuncs() {
		for _, b := range fn.Blocks {
			for _, in := range b.Instrs {
				st, ok := in.(*ssa.Store)
				if !ok {
					continue
				}
				fa, ok := st.Addr.(*ssa.FieldAddr)
				if !ok || fa.Field != chanField || !namedIs(fa.X.Type().Underlying().(*types.Pointer).Elem(), hessianPath, pool.Obj().Name()) {
					continue
				}
				nSt++
				isCtor := false
				for _, c := range ctors {
					if c == fn {
						isCtor = true
					}
				}
				_, fromMk := st.Val.(*ssa.MakeChan)
				r.add("C17.R2 channel created once with capacity = size", fmt.Sprintf("%s · store to the channel field #%d", fnName(fn), nSt), w.instrPos(st), isCtor && fromMk,
					map[bool]string{true: "initialised in the constructor from make(chan)", false: "the channel field is assigned outside the constructor or from another value"}[isCtor && fromMk])
			}
		}
	}
	r.floor("C17.R2 stores to the channel field", nSt, 1)

	// R3: value flow in Get / Return
	for _, m := range methods {
		sig := m.Signature
		switch {
		case sig.Params().Len() == 0 && sig.Results().Len() == 1: // Get
			w.poolGetFlow(r, m)
		case sig.Params().Len() == 1 && sig.Results().Len() == 0: // Return
			p := m.Params[1]
			uses := 0
			okUse := true
			for _, ref := range *p.Referrers() {
				if _, isDbg := ref.(*ssa.DebugRef); isDbg {
					continue
				}
				uses++
				if sel, ok := ref.(*ssa.Select); !ok || sel.Blocking {
					okUse = false
				}
			}
			r.add("C17.R3 pooled value has a single owner", fnName(m)+" · uses of the returned object", w.pos(m.Pos()), okUse && uses == 1, fmt.Sprintf("%d use(s); want exactly one: the send case of the non-blocking select", uses))
		}
	}
	// factories return fresh values
	for _, fc := range factories {
		ok, fact := w.returnsFresh(fc, 0)
		r.add("C17.R3 pooled value has a single owner", fnName(fc)+" · factory result is fresh", w.pos(fc.Pos()), ok, fact)
	}
	r.floor("C17.R3 factories", len(factories), 3)
}

func (w *World) poolGetFlow(r *Report, m *ssa.Function) {
	rule := "C17.R3 pooled value has a single owner"
	n := 0
	for _, b := range m.Blocks {
		ret, ok := b.Instrs[len(b.Instrs)-1].(*ssa.Return)
		if !ok {
			continue
		}
		n++
		v := ret.Results[0]
		ok2, fact := false, "returned value is "+v.String()
		switch x := v.(type) {
		case *ssa.Extract:
			if sel, isSel := x.Tuple.(*ssa.Select); isSel && x.Index >= 2 {
				// received element: must have no other use
				others := 0
				for _, ref := range *x.Referrers() {
					if _, isDbg := ref.(*ssa.DebugRef); isDbg {
						continue
					}
					if ref != ssa.Instruction(ret) {
						others++
					}
				}
				ok2 = others == 0 && !sel.Blocking
				fact = fmt.Sprintf("returns the element received by the non-blocking select; %d other use(s)", others)
			}
		case *ssa.Call:
			// the factory: a dynamic call of a field of the pool
			if x.Call.StaticCallee() == nil && !x.Call.IsInvoke() {
				others := 0
				for _, ref := range *x.Referrers() {
					if _, isDbg := ref.(*ssa.DebugRef); isDbg {
						continue
					}
					if ref != ssa.Instruction(ret) {
						others++
					}
				}
				ok2 = others == 0
				fact = fmt.Sprintf("returns the factory's result; %d other use(s)", others)
			}
		}
		r.add(rule, fmt.Sprintf("%s · return#%d", fnName(m), n), w.instrPos(ret), ok2, fact)
	}
}

// returnsFresh: every return of fn yields a value allocated during the call
// (an Alloc, possibly boxed, or the result of a function that returnsFresh).
func (w *World) returnsFresh(fn *ssa.Function, depth int) (bool, string) {
	if fn.Blocks == nil || depth > 4 {
		return false, "no body / too deep"
	}
	for _, b := range fn.Blocks {
		ret, ok := b.Instrs[len(b.Instrs)-1].(*ssa.Return)
		if !ok || len(ret.Results) == 0 {
			continue
		}
		v := ret.Results[0]
		for {
			if mi, ok := v.(*ssa.MakeInterface); ok {
				v = mi.X
				continue
			}
			if ci, ok := v.(*ssa.ChangeInterface); ok {
				v = ci.X
				continue
			}
			break
		}
		switch x := v.(type) {
		case *ssa.Alloc:
			if !x.Heap {
				return false, "returns a stack slot"
			}
		case *ssa.Call:
			sc := x.Call.StaticCallee()
			if sc == nil {
				return false, "returns the result of a dynamic call at " + w.instrPos(ret)
			}
			if ok, f := w.returnsFresh(sc, depth+1); !ok {
				return false, fnName(sc) + ": " + f
			}
		default:
			return false, "returns " + v.String() + " at " + w.instrPos(ret) + ", not a value allocated in the call"
		}
	}
	return true, "every return yields a value allocated during the call"
}
