package main

// Every value read for a container being built is stored.
//
// In the loops of the container readers that build a slice or a map (the
// container is made in the same function) no iteration can complete — reach
// the loop header again — after a successful element read without passing a
// store into the container (reflect.Append / append, an indexed Set or element
// store, SetMapIndex / a map update, or an in-package function that ends in a
// reflect setter).  A `continue` on a null element is harmless only while the
// slot is pre-allocated: in the append-built forms (declared length above the
// pre-allocation bound, variable-length lists) it drops the element and shifts
// all later ones.  Null is a value: the empty string, the zero time and nil
// pointers all travel as N.

import (
	"fmt"
	"go/types"
	"os"
	"strings"

	"golang.org/x/tools/go/ssa"
)

func (w *World) ruleEveryValueStored(r *Report, rule string) {
	rd := w.fn("(*Decoder).ReadData")
	if rd == nil {
		r.undecided(rule, "(*Decoder).ReadData", "-", "anchor not found")
		return
	}
	reachesRD := w.canReach(map[*ssa.Function]bool{rd: true})
	// functions that consume input: they (transitively) invoke a method of the stream
	// reader interface; a loop may read its elements with a specialised reader
	// (readTag + readDate) instead of the value dispatch
	consumers := map[*ssa.Function]bool{}
	for _, fn := range w.allPkgFuncs() {
		for _, b := range fn.Blocks {
			for _, in := range b.Instrs {
				c, ok := in.(*ssa.Call)
				if !ok {
					continue
				}
				if c.Call.IsInvoke() {
					switch c.Call.Method.Name() {
					case "ReadByte", "ReadRune", "Read", "UnreadByte":
						consumers[fn] = true
					}
					continue
				}
				// the stream handed to library code (io.ReadFull(reader, buf))
				if sc := c.Call.StaticCallee(); sc != nil && !w.inPkg(sc) {
					for _, a := range c.Call.Args {
						if it, ok := a.Type().Underlying().(*types.Interface); ok {
							for i := 0; i < it.NumMethods(); i++ {
								if it.Method(i).Name() == "Read" || it.Method(i).Name() == "ReadByte" {
									consumers[fn] = true
								}
							}
						}
					}
				}
			}
		}
	}
	for f := range w.canReach(consumers) {
		reachesRD[f] = true
	}
	if os.Getenv("HLINT_DEBUG") != "" {
		fmt.Fprintf(os.Stderr, "elemstore consumers=%v\n", sortedFnNames(consumers))
	}
	// in-package functions that end in a reflect setter and do not read the stream
	setterFns := map[*ssa.Function]bool{}
	for _, fn := range w.allPkgFuncs() {
		if reachesRD[fn] {
			continue
		}
		for g := range w.reachPkg(fn) {
			for _, cs := range w.callSitesIn(g) {
				if strings.HasPrefix(cs.callee, "(reflect.Value).Set") || cs.callee == "reflect.Append" || cs.callee == "reflect.AppendSlice" {
					setterFns[fn] = true
				}
			}
		}
	}
	isStore := func(in ssa.Instruction) bool {
		switch x := in.(type) {
		case *ssa.MapUpdate:
			return true
		case *ssa.Store:
			_, ok := x.Addr.(*ssa.IndexAddr)
			return ok
		case *ssa.Call:
			if b, ok := x.Call.Value.(*ssa.Builtin); ok {
				return b.Name() == "append"
			}
			sc := x.Call.StaticCallee()
			if sc == nil {
				// a function value (a store closure handed to a shared loop): every
				// function it can be stores into a container
				cs := w.calleesOf(x)
				if len(cs) == 0 {
					return false
				}
				for _, c := range cs {
					if !w.inPkg(c) || !(setterFns[c] || containerStoreFn(w, c)) {
						return false
					}
				}
				return true
			}
			n := qualifiedFnName(sc)
			if n == "reflect.Append" || n == "reflect.AppendSlice" || strings.HasPrefix(n, "(reflect.Value).Set") {
				return true
			}
			if n == "(reflect.Value).FieldByName" {
				// binding an entry to a struct field by name: an entry without such a
				// field is skipped by design (like an unknown object field)
				return true
			}
			return w.inPkg(sc) && setterFns[sc]
		}
		return false
	}
	// the functions in which container readers do their own work: reachable from a
	// reader that registers a list / map with the decoder's ref table, without
	// going through the value dispatch (which leads to all the other readers) and
	// without entering the scalar decoders
	work := map[*ssa.Function]map[*ssa.Function]bool{} // function -> readers it works for
	scalarDec := map[*ssa.Function]bool{}
	for _, c := range w.codecs() {
		if c.Dec != nil {
			scalarDec[c.Dec] = true
		}
	}
	var readersList []*ssa.Function
	if reg := w.decRegistrar(); reg != nil {
		for fn := range w.registeringFuncs(reg) {
			if len(callsTo(fn, reg)) == 0 {
				continue
			}
			readersList = append(readersList, fn)
			seen := map[*ssa.Function]bool{fn: true}
			stack := []*ssa.Function{fn}
			for len(stack) > 0 {
				g := stack[len(stack)-1]
				stack = stack[:len(stack)-1]
				if work[g] == nil {
					work[g] = map[*ssa.Function]bool{}
				}
				work[g][fn] = true
				for _, c := range w.cgCallees(g) {
					if c == rd || seen[c] || !w.inPkg(c) || scalarDec[c] {
						continue
					}
					seen[c] = true
					stack = append(stack, c)
				}
			}
		}
	}
	n := 0
	loopFns := map[*ssa.Function]bool{}
	for _, fn := range w.SrcFuncs() {
		if work[fn] == nil && work[rootFn(fn)] == nil {
			continue
		}
		// the function makes the container it fills
		makes := false
		for _, cs := range w.callSitesIn(fn) {
			if cs.callee == "reflect.MakeSlice" || cs.callee == "reflect.MakeMap" || cs.callee == "reflect.MakeMapWithSize" {
				makes = true
			}
		}
		for _, b := range fn.Blocks {
			for _, in := range b.Instrs {
				switch in.(type) {
				case *ssa.MakeSlice, *ssa.MakeMap:
					makes = true
				}
			}
		}
		for li, lp := range naturalLoops(fn) {
			reads := w.elementReads(lp, reachesRD)
			if os.Getenv("HLINT_DEBUG") != "" {
				fmt.Fprintf(os.Stderr, "elemstore %s loop %d reads=%d\n", fnName(fn), li, len(reads))
			}
			if len(reads) == 0 {
				continue
			}
			// the loop fills a container: the function makes one, or some iteration path
			// appends / stores an element / sets a map entry
			fills := makes
			for b := range lp.body {
				for _, in := range b.Instrs {
					switch x := in.(type) {
					case *ssa.MapUpdate:
						fills = true
					case *ssa.Call:
						if bi, ok := x.Call.Value.(*ssa.Builtin); ok && bi.Name() == "append" {
							fills = true
						}
						if sc := x.Call.StaticCallee(); sc != nil {
							switch qualifiedFnName(sc) {
							case "reflect.Append", "reflect.AppendSlice", "(reflect.Value).SetMapIndex":
								fills = true
							}
						} else {
							for _, c := range w.calleesOf(x) {
								if w.inPkg(c) && containerStoreFn(w, c) {
									fills = true
								}
							}
						}
						for _, a := range x.Call.Args {
							if ic, ok := a.(*ssa.Call); ok && ic.Call.StaticCallee() != nil && qualifiedFnName(ic.Call.StaticCallee()) == "(reflect.Value).Index" {
								fills = true
							}
						}
					}
				}
			}
			if !fills {
				continue
			}
			n++
			loopFns[fn] = true
			loopFns[rootFn(fn)] = true
			// a cycle from a read back to the same read that passes no store: the value
			// read is dropped and the next one is read (whatever the loop form: the
			// read may sit in the body, in the loop's post statement or in its condition)
			reached, via := false, ""
			var last *ssa.Call
			for _, rdCall := range reads {
				if reached {
					break
				}
				last = rdCall
				seen := map[*ssa.BasicBlock]bool{}
				var scan func(b *ssa.BasicBlock, from int, first bool)
				scan = func(b *ssa.BasicBlock, from int, first bool) {
					for _, in := range b.Instrs[from:] {
						if in == ssa.Instruction(rdCall) && !first {
							reached = true
							via = w.instrPos(rdCall)
							return
						}
						if isStore(in) {
							return
						}
					}
					for _, s := range b.Succs {
						if !lp.body[s] {
							continue
						}
						if s == rdCall.Block() && !seen[s] {
							// re-entering the read's block: scan it from the top up to the read
							seen[s] = true
							scan(s, 0, false)
							continue
						}
						if !seen[s] {
							seen[s] = true
							scan(s, 0, false)
						}
					}
				}
				idx := 0
				for i, in := range rdCall.Block().Instrs {
					if in == ssa.Instruction(rdCall) {
						idx = i + 1
					}
				}
				scan(rdCall.Block(), idx, true)
			}
			fact := "after a successful element read every way back to the loop header passes a store into the container"
			if reached {
				fact = "the element read at " + via + " can be reached again from itself without any store in between: in the append-built forms the element is dropped and every later one shifts (a null — empty string, zero time, nil — is a value)"
			}
			r.add(rule, fmt.Sprintf("%s · loop#%d", fnName(fn), li+1), w.instrPos(last), !reached, fact)
		}
	}
	// floor: every container reader that registers a list or a map with the decoder's
	// ref table reaches (without going through the value dispatch) a loop that was
	// examined — loops may be shared between readers or live in helpers
	served, readers := 0, len(readersList)
	for _, rdr := range readersList {
		for g := range loopFns {
			if work[g][rdr] {
				served++
				break
			}
		}
	}
	r.note("%s: %d loops examined; %d of %d registering container readers reach one", rule, n, served, readers)
	r.floor(rule+" (container readers whose element loop was examined)", served, 4)
}

// containerStoreFn: fn itself appends to a slice, sets a map entry or stores an
// indexed element (a store closure of a shared element loop).
func containerStoreFn(w *World, fn *ssa.Function) bool {
	for _, b := range fn.Blocks {
		for _, in := range b.Instrs {
			switch x := in.(type) {
			case *ssa.MapUpdate:
				return true
			case *ssa.Store:
				if _, ok := x.Addr.(*ssa.IndexAddr); ok {
					return true
				}
			case *ssa.Call:
				if bi, ok := x.Call.Value.(*ssa.Builtin); ok && bi.Name() == "append" {
					return true
				}
				if sc := x.Call.StaticCallee(); sc != nil {
					switch qualifiedFnName(sc) {
					case "reflect.Append", "reflect.AppendSlice", "(reflect.Value).SetMapIndex":
						return true
					}
				}
				for _, a := range x.Call.Args {
					if ic, ok := a.(*ssa.Call); ok && ic.Call.StaticCallee() != nil && qualifiedFnName(ic.Call.StaticCallee()) == "(reflect.Value).Index" {
						return true
					}
				}
			}
		}
	}
	return false
}
