package main

// Every value read for a container being built is stored.
//
// In the loops of the container readers that build a slice or a map (the
// container is made in the same function) no iteration can complete — reach
// the loop header again — after a successful element read without passing a
// store into the container (reflect.Append / append, an indexed Set or element
// store, SetMapIndex / a map update, or an in-package function that ends in a
// reflect setter).  A `continue` on a null element is harmless only while the
// slot is pre-allocated: in the append-built forms (declared length above the
// pre-allocation bound, variable-length lists) it drops the element and shifts
// all later ones.  Null is a value: the empty string, the zero time and nil
// pointers all travel as N.

import (
	"fmt"
	"go/types"
	"os"
	"strings"

	"golang.org/x/tools/go/ssa"
)

func (w *World) ruleEveryValueStored(r *Report, rule string) {
	rd := w.fn("(*Decoder).ReadData")
	if rd == nil {
		r.undecided(rule, "(*Decoder).ReadData", "-", "anchor not found")
		return
	}
	reachesRD := w.canReach(map[*ssa.Function]bool{rd: true})
	// functions that consume input: they (transitively) invoke a method of the stream
	// reader interface; a loop may read its elements with a specialised reader
	// (readTag + readDate) instead of the value dispatch
	consumers := map[*ssa.Function]bool{}
	for _, fn := range w.allPkgFuncs() {
		for _, b := range fn.Blocks {
			for _, in := range b.Instrs {
				c, ok := in.(*ssa.Call)
				if !ok {
					continue
				}
				if c.Call.IsInvoke() {
					switch c.Call.Method.Name() {
					case "ReadByte", "ReadRune", "Read", "UnreadByte":
						consumers[fn] = true
					}
					continue
				}
				// the stream handed to library code (io.ReadFull(reader, buf))
				if sc := c.Call.StaticCallee(); sc != nil && !w.inPkg(sc) {
					for _, a := range c.Call.Args {
						if it, ok := a.Type().Underlying().(*types.Interface); ok {
							for i := 0; i < it.NumMethods(); i++ {
								if it.Method(i).Name() == "Read" || it.Method(i).Name() == "ReadByte" {
									consumers[fn] = true
								}
							}
						}
					}
				}
			}
		}
	}
	for f := range w.canReach(consumers) {
		reachesRD[f] = true
	}
	if os.Getenv("HLINT_DEBUG") != "" {
		fmt.Fprintf(os.Stderr, "elemstore consumers=%v\n", sortedFnNames(consumers))
	}
	// in-package functions that end in a reflect setter and do not read the stream
	setterFns := map[*ssa.Function]bool{}
	for _, fn := range w.allPkgFuncs() {
		if reachesRD[fn] {
			continue
		}
		for g := range w.reachPkg(fn) {
			for _, cs := range w.callSitesIn(g) {
				if strings.HasPrefix(cs.callee, "(reflect.Value).Set") || cs.callee == "reflect.Append" || cs.callee == "reflect.AppendSlice" {
					setterFns[fn] = true
				}
			}
		}
	}
	isStore := func(in ssa.Instruction) bool {
		switch x := in.(type) {
		case *ssa.MapUpdate:
			return true
		case *ssa.Store:
			_, ok := x.Addr.(*ssa.IndexAddr)
			return ok
		case *ssa.Call:
			if b, ok := x.Call.Value.(*ssa.Builtin); ok {
				return b.Name() == "append"
			}
			sc := x.Call.StaticCallee()
			if sc == nil {
				return false
			}
			n := qualifiedFnName(sc)
			if n == "reflect.Append" || n == "reflect.AppendSlice" || strings.HasPrefix(n, "(reflect.Value).Set") {
				return true
			}
			if n == "(reflect.Value).FieldByName" {
				// binding an entry to a struct field by name: an entry without such a
				// field is skipped by design (like an unknown object field)
				return true
			}
			return w.inPkg(sc) && setterFns[sc]
		}
		return false
	}
	n := 0
	for _, fn := range w.SrcFuncs() {
		recv := fn.Signature.Recv()
		if recv == nil || !namedIs(recv.Type(), hessianPath, "Decoder") {
			continue
		}
		// the function makes the container it fills
		makes := false
		for _, cs := range w.callSitesIn(fn) {
			if cs.callee == "reflect.MakeSlice" || cs.callee == "reflect.MakeMap" || cs.callee == "reflect.MakeMapWithSize" {
				makes = true
			}
		}
		for _, b := range fn.Blocks {
			for _, in := range b.Instrs {
				switch in.(type) {
				case *ssa.MakeSlice, *ssa.MakeMap:
					makes = true
				}
			}
		}
		for li, lp := range naturalLoops(fn) {
			reads := w.elementReads(lp, reachesRD)
			if os.Getenv("HLINT_DEBUG") != "" {
				fmt.Fprintf(os.Stderr, "elemstore %s loop %d reads=%d\n", fnName(fn), li, len(reads))
			}
			if len(reads) == 0 {
				continue
			}
			// the loop fills a container: the function makes one, or some iteration path
			// appends / stores an element / sets a map entry
			fills := makes
			for b := range lp.body {
				for _, in := range b.Instrs {
					switch x := in.(type) {
					case *ssa.MapUpdate:
						fills = true
					case *ssa.Call:
						if bi, ok := x.Call.Value.(*ssa.Builtin); ok && bi.Name() == "append" {
							fills = true
						}
						if sc := x.Call.StaticCallee(); sc != nil {
							switch qualifiedFnName(sc) {
							case "reflect.Append", "reflect.AppendSlice", "(reflect.Value).SetMapIndex":
								fills = true
							}
						}
						for _, a := range x.Call.Args {
							if ic, ok := a.(*ssa.Call); ok && ic.Call.StaticCallee() != nil && qualifiedFnName(ic.Call.StaticCallee()) == "(reflect.Value).Index" {
								fills = true
							}
						}
					}
				}
			}
			if !fills {
				continue
			}
			n++
			// DFS from the instruction after each read to the header, stopping at stores
			reached, via := false, ""
			var last *ssa.Call
			for _, rdCall := range reads {
				if reached {
					break
				}
				last = rdCall
				seen := map[*ssa.BasicBlock]bool{}
				var scan func(b *ssa.BasicBlock, from int)
				scan = func(b *ssa.BasicBlock, from int) {
					for _, in := range b.Instrs[from:] {
						if isStore(in) {
							return
						}
					}
					for _, s := range b.Succs {
						if !lp.body[s] {
							continue
						}
						if s == lp.header {
							reached = true
							if via == "" {
								via = w.instrPos(b.Instrs[len(b.Instrs)-1])
							}
							continue
						}
						if !seen[s] {
							seen[s] = true
							scan(s, 0)
						}
					}
				}
				idx := 0
				for i, in := range last.Block().Instrs {
					if in == ssa.Instruction(last) {
						idx = i + 1
					}
				}
				scan(last.Block(), idx)
			}
			fact := "after a successful element read every way back to the loop header passes a store into the container"
			if reached {
				fact = "an iteration can complete (back edge at " + via + ") after the element read at " + w.instrPos(last) + " without storing anything: in the append-built forms the element is dropped and every later one shifts (a null — empty string, zero time, nil — is a value)"
			}
			r.add(rule, fmt.Sprintf("%s · loop#%d", fnName(fn), li+1), w.instrPos(last), !reached, fact)
		}
	}
	r.floor(rule+" (container-building loops)", n, 4)
}
