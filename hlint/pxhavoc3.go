package main

// Summarised loops tested at the bottom (px.go havocLoopKeep).
//
// `for i := 0; ; { use(s[i]); if i++; i >= n { break } }` entered under
// `n >= 1` (the do-while form of `for i := 0; i < n; i++`) never tests its
// counter at the header: the bound holds there by induction — the initial
// value is below n on the way in, and every way back to the header passes the
// false side of `next >= n` (or the true side of `next < n` …) for the very
// value `next` the counter takes on that edge.  The fresh symbol that stands
// for the counter of the generic iteration then satisfies `counter < n`.  n
// must be the same quantity in every iteration: a value made outside the loop,
// or a pure getter / len of such values (the term px gives it is then the same
// on the way in and in the body).

import (
	"go/token"

	"golang.org/x/tools/go/ssa"
)

// loopInvariantValue: v is made outside the loop, or is a pure function of
// such values.
func (p *PX) loopInvariantValue(v ssa.Value, lp *loopInfo, depth int) bool {
	if depth > 4 {
		return false
	}
	switch x := v.(type) {
	case *ssa.Const, *ssa.Parameter, *ssa.FreeVar, *ssa.Global, *ssa.Function:
		return true
	case *ssa.Call:
		if !lp.body[x.Block()] {
			return true
		}
		name := ""
		if sc := x.Call.StaticCallee(); sc != nil && !x.Call.IsInvoke() {
			name = qualifiedFnName(sc)
		} else if b, ok := x.Call.Value.(*ssa.Builtin); ok && b.Name() == "len" {
			name = "len"
		}
		if name != "len" && !pureMethods[name] {
			return false
		}
		for _, a := range x.Call.Args {
			if !p.loopInvariantValue(a, lp, depth+1) {
				return false
			}
		}
		return true
	case ssa.Instruction:
		return !lp.body[x.Block()]
	}
	return false
}

// backEdgeBound: the way back to the header from pred passes a test that
// leaves `next < L`; returns L.
func backEdgeBound(lp *loopInfo, pred *ssa.BasicBlock, next ssa.Value) ssa.Value {
	to := lp.header
	g := pred
	for i := 0; i < 4; i++ {
		if iff, ok := g.Instrs[len(g.Instrs)-1].(*ssa.If); ok {
			if g.Succs[0] == g.Succs[1] {
				return nil
			}
			onTrue := g.Succs[0] == to
			bo, ok := iff.Cond.(*ssa.BinOp)
			if !ok {
				return nil
			}
			switch {
			case bo.Op == token.LSS && bo.X == next && onTrue, bo.Op == token.GEQ && bo.X == next && !onTrue:
				return bo.Y
			case bo.Op == token.GTR && bo.Y == next && onTrue, bo.Op == token.LEQ && bo.Y == next && !onTrue:
				return bo.X
			}
			return nil
		}
		// a block that only jumps on: look at its single predecessor
		if _, isJump := g.Instrs[len(g.Instrs)-1].(*ssa.Jump); !isJump || len(g.Preds) != 1 || !lp.body[g.Preds[0]] || len(g.Instrs) != 1 {
			return nil
		}
		to, g = g, g.Preds[0]
	}
	return nil
}

// bottomTestBound: the counter φ (made fresh as `fresh`, entering with `init`)
// of a loop whose every back edge re-establishes `next < L`, entered with
// `init < L`: record `fresh < L`.
func (p *PX) bottomTestBound(fr *pxFrame, lp *loopInfo, phi *ssa.Phi, fresh, init *Term, st *pxState) {
	if init == nil {
		return
	}
	var bound ssa.Value
	n := 0
	for i, pred := range lp.header.Preds {
		if !lp.body[pred] {
			continue
		}
		n++
		l := backEdgeBound(lp, pred, phi.Edges[i])
		if l == nil || (bound != nil && l != bound) {
			return
		}
		bound = l
	}
	if n == 0 || bound == nil || !p.loopInvariantValue(bound, lp, 0) {
		return
	}
	lt := p.term(bound, fr, st)
	if lt == nil {
		return
	}
	// the way in: init < L
	in := false
	if x, has := st.env["("+init.key+" < "+lt.key+")"]; has && x.Equal(single(1)) {
		in = true
	}
	if x, has := st.env["("+init.key+" >= "+lt.key+")"]; has && x.Equal(single(0)) {
		in = true
	}
	if !in {
		is, _ := p.f.Eval(init, st.env)
		ls, _ := p.f.Eval(lt, st.env)
		in = is != nil && ls != nil && !is.Empty() && !ls.Empty() && ls.Min().Cmp(is.Max()) > 0
	}
	if !in {
		return
	}
	st.env["("+fresh.key+" < "+lt.key+")"] = single(1)
}
