package main

// Rules about the decoder's field dispatch (readField) read off the per-kind
// explorations (kindruns.go) instead of the Kind() facts of readField's own
// blocks: the arm of a kind may be a method reached through a table of field
// readers indexed by the kind, a helper, or a case of a switch — the paths of
// the kind are the same.

import (
	"fmt"
	"sort"
	"strings"

	"golang.org/x/tools/go/ssa"
)

// fieldKinds: the kinds the field dispatch is explored for.  Ptr is left out:
// the dispatch works on the type with its pointers unpacked (pinning Ptr would
// make the unpacking loops endless and describes no value that gets there).
func fieldKinds() []int64 {
	var ks []int64
	for k := int64(1); k <= 26; k++ {
		if k != 22 {
			ks = append(ks, k)
		}
	}
	return ks
}

// ruleSetterKindsPX (C01.R1): a typed reflect setter applied to the destination
// field is reached only for the kinds it accepts (SetInt under the Int kinds,
// …): reflect panics otherwise.  Sites: every setter call in readField (a site
// no kind reaches is reported), and every setter call executed on some kind's
// paths whose receiver is (a pure function of) the destination field handed to
// readField.
func (w *World) ruleSetterKindsPX(r *Report, rule string) {
	rf := w.fn("(*Decoder).readField")
	if rf == nil {
		r.undecided(rule, "(*Decoder).readField", "-", "anchor not found")
		return
	}
	allowed := map[string]string{"SetInt": "Int", "SetUint": "Uint", "SetFloat": "Float", "SetString": "String", "SetBool": "Bool"}
	setterOf := func(c *ssa.Call) string {
		sc := c.Call.StaticCallee()
		if sc == nil || sc.Signature.Recv() == nil || typeStr(sc.Signature.Recv().Type()) != "reflect.Value" {
			return ""
		}
		if _, ok := allowed[sc.Name()]; !ok {
			return ""
		}
		return sc.Name()
	}
	var destKeys []string
	for _, p := range rf.Params {
		if typeStr(p.Type()) == "reflect.Value" {
			destKeys = append(destKeys, "<p:"+p.Name()+">")
		}
	}
	reached := map[*ssa.Call]map[string]bool{}
	for _, k := range fieldKinds() {
		kr := w.kindRun(rf, k, "dec")
		if kr.truncated {
			r.undecided(rule, "(*Decoder).readField · kind "+kindNames[k], w.pos(rf.Pos()), "path exploration exceeded its budget")
			return
		}
		for c, recv := range kr.libCalls {
			if setterOf(c) == "" {
				continue
			}
			onDest := false
			for _, dk := range destKeys {
				if strings.Contains(recv, dk) {
					onDest = true
				}
			}
			if !onDest && c.Parent() != rf {
				continue
			}
			if reached[c] == nil {
				reached[c] = map[string]bool{}
			}
			reached[c][kindNames[k]] = true
		}
	}
	// the sites, in a stable order: readField's own first
	var sites []*ssa.Call
	for _, cs := range w.callSitesIn(rf) {
		if setterOf(cs.call) != "" {
			sites = append(sites, cs.call)
		}
	}
	var others []*ssa.Call
	for c := range reached {
		if c.Parent() != rf {
			others = append(others, c)
		}
	}
	sort.Slice(others, func(i, j int) bool {
		if a, b := fnName(others[i].Parent()), fnName(others[j].Parent()); a != b {
			return a < b
		}
		return others[i].Pos() < others[j].Pos()
	})
	sites = append(sites, others...)
	n := 0
	for _, c := range sites {
		n++
		name := setterOf(c)
		pref := allowed[name]
		var ks []string
		for k := range reached[c] {
			ks = append(ks, k)
		}
		sort.Strings(ks)
		good := len(ks) > 0
		for _, k := range ks {
			if !strings.HasPrefix(k, pref) || (pref == "Int" && strings.HasPrefix(k, "Interface")) {
				good = false
			}
		}
		key := ""
		for _, cs := range w.callSitesIn(c.Parent()) {
			if cs.call == c {
				key = cs.key()
			}
		}
		r.add(rule, fmt.Sprintf("%s · %s", w.canonName(c.Parent()), key), w.instrPos(c), good, fmt.Sprintf("%s is reached for kinds %v (reflect panics when the setter does not match the kind)", name, ks))
	}
	r.floor(rule, n, 6)
}

// ruleNoValueRejectionPX (C08.R4): on the paths of the given kinds the field
// dispatch returns no error but the wire reader's own (nil, or the error
// result of an in-package call that was not stepped into: the reader): a value
// that was read correctly is never rejected for its content.
func (w *World) ruleNoValueRejectionPX(r *Report, rule string, kinds []string) {
	rf := w.fn("(*Decoder).readField")
	if rf == nil {
		r.undecided(rule, "(*Decoder).readField", "-", "anchor not found")
		return
	}
	type site struct {
		ret    *ssa.Return
		origin string
		okE    bool
		desc   string
		kinds  map[string]bool
	}
	sites := map[string]*site{}
	for _, kn := range kinds {
		kr := w.kindRun(rf, kindByName[kn], "dec")
		if kr.truncated {
			r.undecided(rule, "(*Decoder).readField · kind "+kn, w.pos(rf.Pos()), "path exploration exceeded its budget")
			return
		}
		for _, kt := range kr.rets {
			if kt.Err == nil || strings.HasPrefix(kt.Err.key, "nil:") {
				continue
			}
			okE, desc, okey := false, kt.Err.key, ""
			if kt.Origin != nil {
				if oc, isCall := kt.Origin.V.(*ssa.Call); isCall {
					if sc := oc.Call.StaticCallee(); sc != nil && w.inPkg(sc) {
						okE, okey = true, w.instrPos(oc)
					}
				}
			}
			if !okE && kt.Err.V != nil {
				desc = describeVal(kt.Err.V, nil)
			}
			id := w.instrPos(kt.Ret) + "|" + okey + "|" + fmt.Sprint(okE)
			s := sites[id]
			if s == nil {
				s = &site{ret: kt.Ret, origin: okey, okE: okE, desc: desc, kinds: map[string]bool{}}
				sites[id] = s
			}
			s.kinds[kn] = true
		}
	}
	var ids []string
	for id := range sites {
		ids = append(ids, id)
	}
	sort.Strings(ids)
	n := 0
	for _, id := range ids {
		s := sites[id]
		n++
		var ks []string
		for k := range s.kinds {
			ks = append(ks, k)
		}
		sort.Strings(ks)
		r.add(rule, fmt.Sprintf("(*Decoder).readField · error return #%d on the %v branch", n, ks), w.instrPos(s.ret), s.okE,
			map[bool]string{true: "forwards the error of the wire read", false: "returns " + s.desc + ": a value that was read correctly is rejected depending on its content"}[s.okE])
	}
	r.floor(rule, n, 1)
}
