package main

// C16.R2 (complete form) — the type walk descends every part of every
// container type.
//
// A type walker is func(reflect.Type, map[string]reflect.Type).  It is
// explored path by path (reflect.Type getters as pure terms, helpers stepped
// into, the recursive calls recorded with the term of their type argument, not
// followed).  At every return, with T the innermost type term the path knows
// the Kind of:
//   * no recursive call and no recording: Kind(T) excludes ptr, slice, array,
//     map — and struct, unless the path has looked T up in the accumulator
//     (the visited cut-off);
//   * Kind(T) ⊆ {map}: recursive calls on Key(T) and on Elem(T);
//   * Kind(T) ⊆ {slice, array}: a recursive call on Elem(T);
//   * Kind(T) ⊆ {struct} and T recorded on the path: a recursive call on a
//     Field(…).Type of T (the field loop; that it visits every field is C16.R6).
// And every exported function that returns a type map built from a
// reflect.Type hands that type and the map to a walker.
// A missing Key/Elem/field descent leaves the types reachable only through it
// out of the map: "closed" fails for exactly those types.

import (
	"fmt"
	"go/token"
	"strings"

	"golang.org/x/tools/go/ssa"
)

func (w *World) ruleTypeWalkComplete(r *Report, rule string) {
	n := 0
	for _, fn := range w.SrcFuncs() {
		if !isTypeWalker(fn) || len(w.typeWalkRecCalls(fn)) == 0 {
			continue
		}
		n++
		type pathRes struct{ pos, why string }
		var bad []pathRes
		total := 0
		var px *PX
		px = w.newPX(pxHooks{
			onInstr: func(fr *pxFrame, in ssa.Instruction, st *pxState) bool {
				switch x := in.(type) {
				case *ssa.Call:
					if x.Call.IsInvoke() && typeStr(x.Call.Value.Type()) == "reflect.Type" {
						st.trace = append(st.trace, pxEvent{Kind: "getter", Extra: "(reflect.Type)." + x.Call.Method.Name() + "(" + px.term(x.Call.Value, fr, st).key + ")"})
					}
					if sc := x.Call.StaticCallee(); sc != nil && w.inPkg(sc) && isTypeWalker(sc) {
						st.trace = append(st.trace, pxEvent{Kind: "rec", Call: x, Frame: fr, Args: []*Term{px.term(x.Call.Args[0], fr, st)}})
						return false
					}
				case *ssa.MapUpdate:
					if typeStr(x.Map.Type()) == "map[string]reflect.Type" {
						st.trace = append(st.trace, pxEvent{Kind: "record", Frame: fr, Args: []*Term{px.term(x.Value, fr, st)}})
					}
				case *ssa.Lookup:
					if typeStr(x.X.Type()) == "map[string]reflect.Type" {
						st.trace = append(st.trace, pxEvent{Kind: "lookup", Frame: fr})
					}
				}
				return true
			},
			onReturn: func(fr *pxFrame, ret *ssa.Return, results []*Term, st *pxState) {
				total++
				inner, innerKey := ISet(nil), ""
				for k, s := range st.env {
					if !strings.HasPrefix(k, "pure:(reflect.Type).Kind(") {
						continue
					}
					arg := strings.TrimSuffix(strings.TrimPrefix(k, "pure:(reflect.Type).Kind("), ")")
					if innerKey == "" || strings.Contains(arg, innerKey) && len(arg) > len(innerKey) {
						inner, innerKey = s, arg
					}
				}
				if innerKey == "" {
					return
				}
				var recs []string
				recorded, looked := false, false
				for _, ev := range st.trace {
					switch ev.Kind {
					case "rec":
						recs = append(recs, ev.Args[0].key)
					case "record":
						recorded = true
					case "lookup":
						looked = true
					}
				}
				// the part is the argument of a recursive call — or, when the parts travel
				// through a local collection (`for _, part := range [...]reflect.Type{typ.Key(),
				// typ.Elem()}`), it was computed on the path and `need` recursive calls were made
				has := func(getter string, need int) bool {
					for _, k := range recs {
						if strings.Contains(k, getter+"("+innerKey+")") || strings.Contains(k, getter+"("+innerKey+",") {
							return true
						}
					}
					if len(recs) >= need {
						for _, ev := range st.trace {
							if ev.Kind == "getter" && ev.Extra == getter+"("+innerKey+")" {
								return true
							}
						}
					}
					return false
				}
				fail := func(why string) {
					bad = append(bad, pathRes{w.instrPos(ret), fmt.Sprintf("Kind(%s) ∈ %s: %s", innerKey, inner, why)})
				}
				const (
					kArray, kMap, kPtr, kSlice, kStruct = 17, 21, 22, 23, 25
				)
				only := func(ks ...int64) bool {
					var s ISet
					for _, k := range ks {
						s = s.Union(single(k))
					}
					return !inner.Empty() && inner.Minus(s).Empty()
				}
				switch {
				case len(recs) == 0 && !recorded:
					for _, k := range []int64{kArray, kMap, kPtr, kSlice} {
						if inner.Contains(k) {
							fail("the path returns without a recursive call while the type may still be a pointer, slice, array or map")
							return
						}
					}
					if inner.Contains(kStruct) && !looked {
						fail("the path returns on a struct type without recording it, descending it, or having looked it up as already recorded")
					}
				case only(kMap):
					if !has("(reflect.Type).Key", 2) || !has("(reflect.Type).Elem", 2) {
						fail(fmt.Sprintf("a map type needs recursive calls on its key type and its element type; calls made on %v", recs))
					}
				case only(kSlice, kArray), only(kSlice), only(kArray):
					if !has("(reflect.Type).Elem", 1) {
						fail(fmt.Sprintf("a list type needs a recursive call on its element type; calls made on %v", recs))
					}
				case only(kStruct) && recorded:
					okF := false
					for _, k := range recs {
						if strings.Contains(k, "Field") {
							okF = true
						}
					}
					if !okF {
						// a struct without fields: the field loop is not entered
						for k, v := range st.env {
							if strings.Contains(k, "NumField("+innerKey+")") && (strings.HasPrefix(k, "(0 < ") && v.Equal(single(0)) || strings.HasPrefix(k, "(0 >= ") && v.Equal(single(1))) {
								okF = true
							}
						}
					}
					if !okF {
						fail(fmt.Sprintf("a struct type that is recorded needs recursive calls on its field types; calls made on %v", recs))
					}
				}
			},
			havoc: func(fr *pxFrame, lp *loopInfo) bool { return false },
		})
		px.extraPure = typeGetters
		px.Run(fn, nil)
		key := fnName(fn) + " · every part of a container type is descended"
		if px.Truncated {
			r.undecided(rule, key, w.pos(fn.Pos()), "path exploration exceeded its budget")
			continue
		}
		if len(bad) > 0 {
			r.add(rule, key, bad[0].pos, false, fmt.Sprintf("%d of %d paths, e.g. the return at %s: %s", len(bad), total, bad[0].pos, bad[0].why))
		} else {
			r.add(rule, key, w.pos(fn.Pos()), true, fmt.Sprintf("%d paths: pointer types are unwrapped, list types descend their element, map types key and element, recorded struct types their fields; only scalar kinds and already recorded structs return without recursion", total))
		}
	}
	r.floor(rule+" (type walkers)", n, 1)
	// roots delegate
	m := 0
	for _, fn := range w.SrcFuncs() {
		if fn.Parent() != nil || fn.Signature.Recv() != nil || !token.IsExported(fn.Name()) || isTypeWalker(fn) {
			continue
		}
		res := fn.Signature.Results()
		if res.Len() != 1 || typeStr(res.At(0).Type()) != "map[string]reflect.Type" {
			continue
		}
		var tp *ssa.Parameter
		for _, p := range fn.Params {
			if typeStr(p.Type()) == "reflect.Type" {
				tp = p
			}
		}
		if tp == nil {
			continue
		}
		m++
		ok, fact := false, "no call hands the type parameter and the returned map to a type walker: the map comes back empty"
		for _, b := range fn.Blocks {
			for _, in := range b.Instrs {
				c, isC := in.(*ssa.Call)
				if !isC || c.Call.StaticCallee() == nil || !isTypeWalker(c.Call.StaticCallee()) || len(c.Call.Args) != 2 {
					continue
				}
				if c.Call.Args[0] != ssa.Value(tp) {
					continue
				}
				for _, b2 := range fn.Blocks {
					if ret, isR := b2.Instrs[len(b2.Instrs)-1].(*ssa.Return); isR && ret.Results[0] == c.Call.Args[1] {
						ok, fact = true, "the type parameter and the returned map are handed to "+fnName(c.Call.StaticCallee())
					}
				}
			}
		}
		r.add(rule, fnName(fn)+" · delegates to the walk", w.pos(fn.Pos()), ok, fact)
	}
	r.floor(rule+" (type-map builders over a reflect.Type)", m, 1)
}
