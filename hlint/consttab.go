package main

// Constant tables.
//
// A dispatch written as data — `var _heads = [...]layout{{tag: 0x58, …}, …}`,
// `var _tagTable = makeTagTable()` (a [256] array filled by a loop over the same
// predicates and constants the chain of comparisons used), an array of function
// values indexed by tag — selects exactly what the comparisons selected, provided
// the table is never written after package initialisation.  The content of such a
// table is a function of the program text: it is computed here by running the
// initialiser with a small concrete interpreter of SSA (integers, booleans,
// arrays, structs, pointers into them, function values, calls of package
// functions; anything else is "unknown", and a branch on an unknown value or a
// write through an unknown pointer gives the table up).  A load
// `table[i].field` is then a constant when i is one, and otherwise a term
// ctab(i) whose value set is the union over the possible i and which refines i
// when it is compared.
//
// Read-only is checked, not assumed: outside the synthetic package initialiser
// the variable's address may only be indexed / selected and loaded from.

import (
	"fmt"
	"go/constant"
	"go/token"
	"go/types"
	"math/big"

	"golang.org/x/tools/go/ssa"
)

type cv struct {
	k  byte // 'i' int, 'b' bool, 'a' array, 's' struct, 'p' pointer, 'f' function, 'n' nil, 't' tuple, '?' unknown
	n  *big.Int
	b  bool
	el []*cv // cells of an array / struct, components of a tuple
	to *cv   // pointer target
	ro bool  // pointer into another (finished) table
	fn *ssa.Function
}

var cvUnknown = &cv{k: '?'}

func (w *World) cvZero(t types.Type) *cv {
	switch u := t.Underlying().(type) {
	case *types.Basic:
		switch {
		case u.Info()&types.IsInteger != 0:
			return &cv{k: 'i', n: new(big.Int)}
		case u.Info()&types.IsBoolean != 0:
			return &cv{k: 'b'}
		}
		return &cv{k: '?'}
	case *types.Array:
		if u.Len() > 1<<16 {
			return &cv{k: '?'}
		}
		a := &cv{k: 'a', el: make([]*cv, u.Len())}
		for i := range a.el {
			a.el[i] = w.cvZero(u.Elem())
		}
		return a
	case *types.Struct:
		s := &cv{k: 's', el: make([]*cv, u.NumFields())}
		for i := range s.el {
			s.el[i] = w.cvZero(u.Field(i).Type())
		}
		return s
	case *types.Pointer, *types.Signature, *types.Slice, *types.Map, *types.Chan, *types.Interface:
		return &cv{k: 'n'}
	}
	return &cv{k: '?'}
}

func cvCopy(v *cv) *cv {
	if v == nil {
		return cvUnknown
	}
	switch v.k {
	case 'a', 's', 't':
		c := &cv{k: v.k, el: make([]*cv, len(v.el))}
		for i, e := range v.el {
			c.el[i] = cvCopy(e)
		}
		return c
	}
	c := *v
	return &c
}

type cinterp struct {
	w      *World
	steps  int
	failed bool
}

func (ci *cinterp) fail() *cv {
	ci.failed = true
	return cvUnknown
}

func (ci *cinterp) wrap(n *big.Int, t types.Type) *big.Int {
	bits, signed, ok := intTypeInfo(ci.w, t)
	if !ok || bits == 0 {
		return n
	}
	mod := new(big.Int).Lsh(one, bits)
	r := new(big.Int).Mod(n, mod)
	if signed && r.Cmp(new(big.Int).Lsh(one, bits-1)) >= 0 {
		r.Sub(r, mod)
	}
	return r
}

func (ci *cinterp) constVal(c *ssa.Const) *cv {
	if c.Value == nil {
		if _, isBasic := c.Type().Underlying().(*types.Basic); isBasic {
			return ci.w.cvZero(c.Type())
		}
		switch c.Type().Underlying().(type) {
		case *types.Array, *types.Struct:
			return ci.w.cvZero(c.Type())
		}
		return &cv{k: 'n'}
	}
	switch c.Value.Kind() {
	case constant.Bool:
		return &cv{k: 'b', b: constant.BoolVal(c.Value)}
	case constant.Int:
		if n, ok := new(big.Int).SetString(c.Value.ExactString(), 10); ok {
			if _, _, isInt := intTypeInfo(ci.w, c.Type()); isInt {
				return &cv{k: 'i', n: n}
			}
		}
	}
	return cvUnknown
}

// call runs fn on concrete arguments.
func (ci *cinterp) call(fn *ssa.Function, args []*cv, depth int) *cv {
	if fn.Blocks == nil || depth > 24 || len(fn.FreeVars) > 0 {
		return ci.fail()
	}
	regs := map[ssa.Value]*cv{}
	for i, p := range fn.Params {
		if i < len(args) {
			regs[p] = args[i]
		} else {
			regs[p] = cvUnknown
		}
	}
	val := func(v ssa.Value) *cv {
		switch x := v.(type) {
		case *ssa.Const:
			return ci.constVal(x)
		case *ssa.Function:
			return &cv{k: 'f', fn: x}
		case *ssa.Global:
			if cell, ok := ci.w.cvTable(x); ok {
				return &cv{k: 'p', to: cell, ro: true}
			}
			return cvUnknown
		}
		if r, ok := regs[v]; ok {
			return r
		}
		return cvUnknown
	}
	b := fn.Blocks[0]
	var pred *ssa.BasicBlock
	for {
		var next *ssa.BasicBlock
		// φ-nodes read the values of the edge taken simultaneously
		var phis []*ssa.Phi
		var phiVals []*cv
		for _, in := range b.Instrs {
			phi, ok := in.(*ssa.Phi)
			if !ok {
				break
			}
			for i, q := range b.Preds {
				if q == pred {
					phis = append(phis, phi)
					phiVals = append(phiVals, val(phi.Edges[i]))
					break
				}
			}
		}
		for i, phi := range phis {
			regs[phi] = phiVals[i]
		}
		for _, in := range b.Instrs {
			ci.steps++
			if ci.steps > 2000000 || ci.failed {
				return ci.fail()
			}
			switch x := in.(type) {
			case *ssa.Phi, *ssa.DebugRef:
			case *ssa.Alloc:
				pt, ok := x.Type().Underlying().(*types.Pointer)
				if !ok {
					return ci.fail()
				}
				regs[x] = &cv{k: 'p', to: ci.w.cvZero(pt.Elem())}
			case *ssa.IndexAddr:
				base, idx := val(x.X), val(x.Index)
				if base.k == '?' || idx.k != 'i' {
					regs[x] = cvUnknown
					continue
				}
				if base.k != 'p' || base.to == nil || base.to.k != 'a' || !idx.n.IsInt64() || idx.n.Int64() < 0 || idx.n.Int64() >= int64(len(base.to.el)) {
					return ci.fail()
				}
				regs[x] = &cv{k: 'p', to: base.to.el[idx.n.Int64()], ro: base.ro}
			case *ssa.FieldAddr:
				base := val(x.X)
				if base.k == '?' {
					regs[x] = cvUnknown
					continue
				}
				if base.k != 'p' || base.to == nil || base.to.k != 's' || x.Field >= len(base.to.el) {
					return ci.fail()
				}
				regs[x] = &cv{k: 'p', to: base.to.el[x.Field], ro: base.ro}
			case *ssa.Index:
				base, idx := val(x.X), val(x.Index)
				if base.k != 'a' || idx.k != 'i' || !idx.n.IsInt64() || idx.n.Int64() < 0 || idx.n.Int64() >= int64(len(base.el)) {
					regs[x] = cvUnknown
					continue
				}
				regs[x] = cvCopy(base.el[idx.n.Int64()])
			case *ssa.Field:
				base := val(x.X)
				if base.k != 's' || x.Field >= len(base.el) {
					regs[x] = cvUnknown
					continue
				}
				regs[x] = cvCopy(base.el[x.Field])
			case *ssa.UnOp:
				a := val(x.X)
				switch x.Op {
				case token.MUL:
					switch a.k {
					case 'p':
						regs[x] = cvCopy(a.to)
					case 'n':
						return ci.fail()
					default:
						regs[x] = cvUnknown
					}
				case token.NOT:
					if a.k == 'b' {
						regs[x] = &cv{k: 'b', b: !a.b}
					} else {
						regs[x] = cvUnknown
					}
				case token.SUB:
					if a.k == 'i' {
						regs[x] = &cv{k: 'i', n: ci.wrap(new(big.Int).Neg(a.n), x.Type())}
					} else {
						regs[x] = cvUnknown
					}
				case token.XOR:
					if a.k == 'i' {
						regs[x] = &cv{k: 'i', n: ci.wrap(new(big.Int).Not(a.n), x.Type())}
					} else {
						regs[x] = cvUnknown
					}
				default:
					regs[x] = cvUnknown
				}
			case *ssa.BinOp:
				regs[x] = ci.binop(x, val(x.X), val(x.Y))
			case *ssa.Convert:
				a := val(x.X)
				if _, _, ok := intTypeInfo(ci.w, x.Type()); ok && a.k == 'i' {
					regs[x] = &cv{k: 'i', n: ci.wrap(a.n, x.Type())}
				} else {
					regs[x] = cvUnknown
				}
			case *ssa.ChangeType:
				regs[x] = val(x.X)
			case *ssa.Store:
				addr := val(x.Addr)
				if addr.k != 'p' || addr.ro || addr.to == nil {
					return ci.fail()
				}
				*addr.to = *cvCopy(val(x.Val))
			case *ssa.Call:
				regs[x] = ci.doCall(x, val, depth)
				if ci.failed {
					return cvUnknown
				}
			case *ssa.Extract:
				tup := val(x.Tuple)
				if tup.k == 't' && x.Index < len(tup.el) {
					regs[x] = tup.el[x.Index]
				} else {
					regs[x] = cvUnknown
				}
			case *ssa.MakeClosure:
				if len(x.Bindings) == 0 {
					regs[x] = &cv{k: 'f', fn: x.Fn.(*ssa.Function)}
				} else {
					regs[x] = cvUnknown
				}
			case *ssa.Slice:
				if a := val(x.X); a.k == 'p' {
					return ci.fail() // a slice of a tracked array aliases it
				}
				regs[x] = cvUnknown
			case *ssa.MakeInterface, *ssa.MakeSlice, *ssa.MakeMap, *ssa.MakeChan, *ssa.Lookup, *ssa.TypeAssert, *ssa.ChangeInterface, *ssa.Range, *ssa.Next, *ssa.SliceToArrayPointer:
				for _, op := range in.Operands(nil) {
					if a := val(*op); a.k == 'p' {
						return ci.fail()
					}
				}
				regs[in.(ssa.Value)] = cvUnknown
			case *ssa.MapUpdate:
				if a := val(x.Value); a.k == 'p' {
					return ci.fail()
				}
			case *ssa.RunDefers:
			case *ssa.If:
				c := val(x.Cond)
				if c.k != 'b' {
					return ci.fail()
				}
				if c.b {
					next = b.Succs[0]
				} else {
					next = b.Succs[1]
				}
			case *ssa.Jump:
				next = b.Succs[0]
			case *ssa.Return:
				switch len(x.Results) {
				case 0:
					return &cv{k: 't'}
				case 1:
					return cvCopy(val(x.Results[0]))
				}
				t := &cv{k: 't'}
				for _, r := range x.Results {
					t.el = append(t.el, cvCopy(val(r)))
				}
				return t
			default:
				return ci.fail()
			}
		}
		if next == nil {
			return ci.fail()
		}
		pred, b = b, next
	}
}

func (ci *cinterp) doCall(x *ssa.Call, val func(ssa.Value) *cv, depth int) *cv {
	c := x.Common()
	var args []*cv
	ptrArg := false
	for _, a := range c.Args {
		v := val(a)
		args = append(args, v)
		if v.k == 'p' {
			ptrArg = true
		}
	}
	if bi, ok := c.Value.(*ssa.Builtin); ok {
		if bi.Name() == "len" && len(args) == 1 {
			t := c.Args[0].Type().Underlying()
			if pt, ok := t.(*types.Pointer); ok {
				t = pt.Elem().Underlying()
			}
			if at, ok := t.(*types.Array); ok {
				return &cv{k: 'i', n: big.NewInt(at.Len())}
			}
		}
		if ptrArg {
			return ci.fail()
		}
		return cvUnknown
	}
	var callee *ssa.Function
	if sc := c.StaticCallee(); sc != nil {
		callee = sc
	} else if !c.IsInvoke() {
		if fv := val(c.Value); fv.k == 'f' {
			callee = fv.fn
		}
	}
	if callee != nil && ci.w.inPkg(callee) && callee.Blocks != nil && len(callee.FreeVars) == 0 {
		return ci.call(callee, args, depth+1)
	}
	if ptrArg {
		return ci.fail() // code that is not interpreted may write through the pointer
	}
	return cvUnknown
}

func (ci *cinterp) binop(x *ssa.BinOp, a, b *cv) *cv {
	cmp := func(c int) *cv {
		var r bool
		switch x.Op {
		case token.EQL:
			r = c == 0
		case token.NEQ:
			r = c != 0
		case token.LSS:
			r = c < 0
		case token.LEQ:
			r = c <= 0
		case token.GTR:
			r = c > 0
		case token.GEQ:
			r = c >= 0
		default:
			return cvUnknown
		}
		return &cv{k: 'b', b: r}
	}
	switch {
	case a.k == 'i' && b.k == 'i':
		switch x.Op {
		case token.EQL, token.NEQ, token.LSS, token.LEQ, token.GTR, token.GEQ:
			return cmp(a.n.Cmp(b.n))
		}
		r := new(big.Int)
		switch x.Op {
		case token.ADD:
			r.Add(a.n, b.n)
		case token.SUB:
			r.Sub(a.n, b.n)
		case token.MUL:
			r.Mul(a.n, b.n)
		case token.QUO:
			if b.n.Sign() == 0 {
				return ci.fail()
			}
			r.Quo(a.n, b.n)
		case token.REM:
			if b.n.Sign() == 0 {
				return ci.fail()
			}
			r.Rem(a.n, b.n)
		case token.AND:
			r.And(a.n, b.n)
		case token.OR:
			r.Or(a.n, b.n)
		case token.XOR:
			r.Xor(a.n, b.n)
		case token.AND_NOT:
			r.AndNot(a.n, b.n)
		case token.SHL:
			if b.n.Sign() < 0 || !b.n.IsInt64() || b.n.Int64() > 256 {
				return ci.fail()
			}
			r.Lsh(a.n, uint(b.n.Int64()))
		case token.SHR:
			if b.n.Sign() < 0 || !b.n.IsInt64() {
				return ci.fail()
			}
			sh := b.n.Int64()
			if sh > 256 {
				sh = 256
			}
			r.Rsh(a.n, uint(sh))
		default:
			return cvUnknown
		}
		return &cv{k: 'i', n: ci.wrap(r, x.Type())}
	case a.k == 'b' && b.k == 'b':
		switch x.Op {
		case token.EQL:
			return &cv{k: 'b', b: a.b == b.b}
		case token.NEQ:
			return &cv{k: 'b', b: a.b != b.b}
		case token.AND:
			return &cv{k: 'b', b: a.b && b.b}
		case token.OR:
			return &cv{k: 'b', b: a.b || b.b}
		}
	case (a.k == 'f' || a.k == 'n' || a.k == 'p') && (b.k == 'f' || b.k == 'n' || b.k == 'p') && (a.k == 'n' || b.k == 'n'):
		same := a.k == 'n' && b.k == 'n'
		switch x.Op {
		case token.EQL:
			return &cv{k: 'b', b: same}
		case token.NEQ:
			return &cv{k: 'b', b: !same}
		}
	}
	return cvUnknown
}

// ---- tables ----

type ctabEntry struct {
	cell *cv
	ok   bool
	busy bool
}

// constTable: the content of package-level variable g after initialisation, if it
// can be computed and if nothing but the initialiser ever writes it.
func (w *World) cvTable(g *ssa.Global) (*cv, bool) {
	if g == nil || g.Pkg != w.Pkg {
		return nil, false
	}
	if w.ctabs == nil {
		w.ctabs = map[*ssa.Global]*ctabEntry{}
	}
	if e, ok := w.ctabs[g]; ok {
		if e.busy {
			return nil, false
		}
		return e.cell, e.ok
	}
	e := &ctabEntry{busy: true}
	w.ctabs[g] = e
	e.cell, e.ok = w.constTable0(g)
	e.busy = false
	return e.cell, e.ok
}

func (w *World) constTable0(g *ssa.Global) (*cv, bool) {
	pt, ok := g.Type().Underlying().(*types.Pointer)
	if !ok {
		return nil, false
	}
	switch pt.Elem().Underlying().(type) {
	case *types.Array, *types.Struct:
	default:
		return nil, false // scalars are handled by globalInit
	}
	initFn := w.Pkg.Func("init")
	if initFn == nil {
		return nil, false
	}
	// read-only outside the initialiser
	var readOnlyUse func(v ssa.Value) bool
	readOnlyUse = func(v ssa.Value) bool {
		refs := v.Referrers()
		if refs == nil {
			return true
		}
		for _, ref := range *refs {
			switch x := ref.(type) {
			case *ssa.DebugRef:
			case *ssa.UnOp:
				if x.Op != token.MUL {
					return false
				}
			case *ssa.IndexAddr:
				if x.X != v || !readOnlyUse(x) {
					return false
				}
			case *ssa.FieldAddr:
				if x.X != v || !readOnlyUse(x) {
					return false
				}
			default:
				return false
			}
		}
		return true
	}
	for _, fn := range w.allPkgFuncs() {
		if fn == initFn {
			continue
		}
		for _, b := range fn.Blocks {
			for _, in := range b.Instrs {
				for _, op := range in.Operands(nil) {
					if *op != ssa.Value(g) {
						continue
					}
					switch x := in.(type) {
					case *ssa.UnOp:
						if x.Op != token.MUL {
							return nil, false
						}
					case *ssa.IndexAddr:
						if !readOnlyUse(x) {
							return nil, false
						}
					case *ssa.FieldAddr:
						if !readOnlyUse(x) {
							return nil, false
						}
					default:
						return nil, false
					}
				}
			}
		}
	}
	// run the initialiser's stores into g
	cell := w.cvZero(pt.Elem())
	if cell.k == '?' {
		return nil, false
	}
	ci := &cinterp{w: w}
	var demand func(v ssa.Value, depth int) *cv
	demand = func(v ssa.Value, depth int) *cv {
		if depth > 12 {
			return cvUnknown
		}
		switch x := v.(type) {
		case *ssa.Const:
			return ci.constVal(x)
		case *ssa.Function:
			return &cv{k: 'f', fn: x}
		case *ssa.MakeClosure:
			if len(x.Bindings) == 0 {
				return &cv{k: 'f', fn: x.Fn.(*ssa.Function)}
			}
		case *ssa.Convert:
			if a := demand(x.X, depth+1); a.k == 'i' {
				if _, _, ok := intTypeInfo(w, x.Type()); ok {
					return &cv{k: 'i', n: ci.wrap(a.n, x.Type())}
				}
			}
		case *ssa.ChangeType:
			return demand(x.X, depth+1)
		case *ssa.BinOp:
			return ci.binop(x, demand(x.X, depth+1), demand(x.Y, depth+1))
		case *ssa.UnOp:
			if x.Op == token.MUL {
				if g2, steps, ok := w.ctabChain(x.X); ok && g2 != g {
					if c2, ok := w.cvTable(g2); ok {
						if leaf, ok := w.ctabResolve(c2, steps, func(iv ssa.Value) (int64, bool) {
							d := demand(iv, depth+1)
							if d.k == 'i' && d.n.IsInt64() {
								return d.n.Int64(), true
							}
							return 0, false
						}); ok {
							return cvCopy(leaf)
						}
					}
				}
				if g2, ok := x.X.(*ssa.Global); ok {
					if c, ok := w.globalInit(g2); ok {
						return &cv{k: 'i', n: c}
					}
				}
			}
		case *ssa.Call:
			sc := x.Call.StaticCallee()
			if sc == nil || !w.inPkg(sc) || sc.Blocks == nil {
				return cvUnknown
			}
			var args []*cv
			for _, a := range x.Call.Args {
				d := demand(a, depth+1)
				if d.k == 'p' {
					return cvUnknown
				}
				args = append(args, d)
			}
			sub := &cinterp{w: w}
			r := sub.call(sc, args, 0)
			if sub.failed {
				return cvUnknown
			}
			return r
		case *ssa.Extract:
			if t := demand(x.Tuple, depth+1); t.k == 't' && x.Index < len(t.el) {
				return t.el[x.Index]
			}
		}
		return cvUnknown
	}
	stores := 0
	for _, b := range initFn.Blocks {
		for _, in := range b.Instrs {
			st, ok := in.(*ssa.Store)
			if !ok {
				continue
			}
			g2, steps, ok := w.ctabChainRaw(st.Addr)
			if !ok || g2 != g {
				continue
			}
			stores++
			target, ok := w.ctabResolve(cell, steps, func(iv ssa.Value) (int64, bool) {
				d := demand(iv, 0)
				if d.k == 'i' && d.n.IsInt64() {
					return d.n.Int64(), true
				}
				return 0, false
			})
			if !ok {
				return nil, false
			}
			*target = *cvCopy(demand(st.Val, 0))
		}
	}
	// any other mention of g in the initialiser (its address handed to a call, …) gives up
	for _, b := range initFn.Blocks {
		for _, in := range b.Instrs {
			for _, op := range in.Operands(nil) {
				if *op != ssa.Value(g) {
					continue
				}
				switch x := in.(type) {
				case *ssa.Store:
					if x.Addr != ssa.Value(g) {
						return nil, false
					}
				case *ssa.IndexAddr:
					if !w.initAddrUse(x) {
						return nil, false
					}
				case *ssa.FieldAddr:
					if !w.initAddrUse(x) {
						return nil, false
					}
				case *ssa.UnOp:
					if x.Op != token.MUL {
						return nil, false
					}
				default:
					return nil, false
				}
			}
		}
	}
	return cell, true
}

// initAddrUse: inside the initialiser an element address is stored to, loaded
// from, or refined further.
func (w *World) initAddrUse(v ssa.Value) bool {
	refs := v.Referrers()
	if refs == nil {
		return true
	}
	for _, ref := range *refs {
		switch x := ref.(type) {
		case *ssa.DebugRef:
		case *ssa.UnOp:
			if x.Op != token.MUL {
				return false
			}
		case *ssa.Store:
			if x.Addr != v || x.Val == v {
				return false
			}
		case *ssa.IndexAddr:
			if x.X != v || !w.initAddrUse(x) {
				return false
			}
		case *ssa.FieldAddr:
			if x.X != v || !w.initAddrUse(x) {
				return false
			}
		default:
			return false
		}
	}
	return true
}

type ctabStep struct {
	field int
	index ssa.Value // non-nil for an index step
}

// ctabChainRaw: addr = &g[i].f[j]… as (g, steps); no check of g.
func (w *World) ctabChainRaw(addr ssa.Value) (*ssa.Global, []ctabStep, bool) {
	var steps []ctabStep
	for depth := 0; depth < 8; depth++ {
		switch x := addr.(type) {
		case *ssa.Global:
			for i, j := 0, len(steps)-1; i < j; i, j = i+1, j-1 {
				steps[i], steps[j] = steps[j], steps[i]
			}
			return x, steps, true
		case *ssa.FieldAddr:
			steps = append(steps, ctabStep{field: x.Field})
			addr = x.X
		case *ssa.IndexAddr:
			steps = append(steps, ctabStep{index: x.Index})
			addr = x.X
		default:
			return nil, nil, false
		}
	}
	return nil, nil, false
}

// ctabChain: as ctabChainRaw, for a constant table.
func (w *World) ctabChain(addr ssa.Value) (*ssa.Global, []ctabStep, bool) {
	g, steps, ok := w.ctabChainRaw(addr)
	if !ok || g.Pkg != w.Pkg {
		return nil, nil, false
	}
	if _, ok := w.cvTable(g); !ok {
		return nil, nil, false
	}
	return g, steps, true
}

// ctabValueChain: a VALUE read out of a constant table: *addr, or a field /
// element of such a value.
func (w *World) ctabValueChain(v ssa.Value) (*ssa.Global, []ctabStep, bool) {
	var tail []ctabStep
	for depth := 0; depth < 6; depth++ {
		switch x := v.(type) {
		case *ssa.UnOp:
			if x.Op != token.MUL {
				return nil, nil, false
			}
			g, steps, ok := w.ctabChain(x.X)
			if !ok {
				return nil, nil, false
			}
			for i := len(tail) - 1; i >= 0; i-- {
				steps = append(steps, tail[i])
			}
			return g, steps, true
		case *ssa.Field:
			tail = append(tail, ctabStep{field: x.Field})
			v = x.X
		case *ssa.Index:
			tail = append(tail, ctabStep{index: x.Index})
			v = x.X
		default:
			return nil, nil, false
		}
	}
	return nil, nil, false
}

func (w *World) ctabResolve(cell *cv, steps []ctabStep, idx func(ssa.Value) (int64, bool)) (*cv, bool) {
	cur := cell
	for _, s := range steps {
		if s.index != nil {
			i, ok := idx(s.index)
			if !ok || cur.k != 'a' || i < 0 || i >= int64(len(cur.el)) {
				return nil, false
			}
			cur = cur.el[i]
		} else {
			if cur.k != 's' || s.field >= len(cur.el) {
				return nil, false
			}
			cur = cur.el[s.field]
		}
	}
	return cur, true
}

// ctabLeafTerm: the term of a scalar table entry.
func ctabLeafTerm(leaf *cv, t types.Type) *Term {
	switch leaf.k {
	case 'i':
		return &Term{K: TConst, C: leaf.n, T: t, key: leaf.n.String()}
	case 'b':
		return &Term{K: TBoolConst, Bool: leaf.b, T: t, key: map[bool]string{true: "true", false: "false"}[leaf.b]}
	case 'n':
		return &Term{K: TLeaf, T: t, key: "nil:" + t.String()}
	case 'f':
		ft := fnTerm(leaf.fn) // the same term as the function named directly (pxro.go)
		ft.T = t
		return ft
	}
	return nil
}

// ctabTermOf builds the term of a value read out of a constant table: a constant
// when every index is constant (idxTerm gives the term of an index value), a
// ctab(i) term when exactly one index is not and the entry is an integer or a
// boolean.
func (w *World) ctabTermOf(v ssa.Value, idxTerm func(ssa.Value) *Term) *Term {
	g, steps, ok := w.ctabValueChain(v)
	if !ok {
		return nil
	}
	cell, _ := w.cvTable(g)
	var free *Term
	nFree := 0
	for _, s := range steps {
		if s.index == nil {
			continue
		}
		if it := idxTerm(s.index); it == nil || it.K != TConst {
			free = it
			nFree++
		}
	}
	if nFree == 0 {
		leaf, ok := w.ctabResolve(cell, steps, func(iv ssa.Value) (int64, bool) {
			it := idxTerm(iv)
			if it != nil && it.K == TConst && it.C.IsInt64() {
				return it.C.Int64(), true
			}
			return 0, false
		})
		if !ok {
			return nil
		}
		return ctabLeafTerm(leaf, v.Type())
	}
	if nFree != 1 || free == nil {
		return nil
	}
	if _, isNum := typeRange(w, v.Type()); !isNum {
		return nil
	}
	path := g.Name()
	for _, s := range steps {
		if s.index != nil {
			it := idxTerm(s.index)
			path += "[" + it.key + "]"
		} else {
			path += fmt.Sprintf(".%d", s.field)
		}
	}
	// the fixed indices are remembered by value so that the term can be evaluated
	// without the frame that built it
	var fixed []int64
	for _, s := range steps {
		if s.index != nil {
			if it := idxTerm(s.index); it != nil && it.K == TConst && it.C.IsInt64() {
				fixed = append(fixed, it.C.Int64())
			} else {
				fixed = append(fixed, -1)
			}
		}
	}
	ref := &ctabRef{g: g, steps: steps, fixed: fixed}
	if w.ctabRefs == nil {
		w.ctabRefs = map[string]*ctabRef{}
	}
	key := "ctab:" + path
	w.ctabRefs[key] = ref
	return &Term{K: TPure, Name: "ctab", Args: []*Term{free}, V: v, T: v.Type(), key: key}
}

type ctabRef struct {
	g     *ssa.Global
	steps []ctabStep
	fixed []int64 // per index step: the constant, or -1 for the free one
}

// ctabAt: the entry selected when the free index is i (nil if out of range / not scalar).
func (w *World) ctabAt(t *Term, i int64) *cv {
	ref := w.ctabRefs[t.key]
	if ref == nil {
		return nil
	}
	cell, ok := w.cvTable(ref.g)
	if !ok {
		return nil
	}
	k := 0
	cur := cell
	for _, s := range ref.steps {
		if s.index != nil {
			ix := ref.fixed[k]
			k++
			if ix < 0 {
				ix = i
			}
			if cur.k != 'a' || ix < 0 || ix >= int64(len(cur.el)) {
				return nil
			}
			cur = cur.el[ix]
		} else {
			if cur.k != 's' || s.field >= len(cur.el) {
				return nil
			}
			cur = cur.el[s.field]
		}
	}
	return cur
}

// ctabInRange: the values of idx that index the array the free step of ctab(i)
// selects from (any other index panics: the access has no value), so that a
// wide index type (reflect.Kind is a uint) still enumerates.
func (w *World) ctabInRange(t *Term, idx ISet) ISet {
	ref := w.ctabRefs[t.key]
	if ref == nil || idx == nil {
		return idx
	}
	cur, ok := w.cvTable(ref.g)
	if !ok {
		return idx
	}
	k := 0
	for _, s := range ref.steps {
		if s.index != nil {
			if cur.k != 'a' {
				return idx
			}
			ix := ref.fixed[k]
			k++
			if ix < 0 {
				if len(cur.el) == 0 {
					return ISet{}
				}
				return idx.Intersect(ISet{{bi(0), bi(int64(len(cur.el) - 1))}})
			}
			if ix >= int64(len(cur.el)) {
				return idx
			}
			cur = cur.el[ix]
		} else {
			if cur.k != 's' || s.field >= len(cur.el) {
				return idx
			}
			cur = cur.el[s.field]
		}
	}
	return idx
}

// ctabEval: the values ctab(i) takes for i in idx (nil: unknown).
func (w *World) ctabEval(t *Term, idx ISet) ISet {
	if idx == nil {
		return nil
	}
	idx = w.ctabInRange(t, idx)
	vals, small := idx.Elems(4096)
	if !small {
		return nil
	}
	var out ISet
	for _, i := range vals {
		leaf := w.ctabAt(t, i)
		if leaf == nil {
			continue // the access panics: no value
		}
		switch leaf.k {
		case 'i':
			out = append(out, IV{leaf.n, leaf.n})
		case 'b':
			if leaf.b {
				out = append(out, IV{bi(1), bi(1)})
			} else {
				out = append(out, IV{bi(0), bi(0)})
			}
		default:
			return nil
		}
	}
	return out.norm()
}

// ctabNarrow: the indices in idx whose entry lies in s.
func (w *World) ctabNarrow(t *Term, idx, s ISet) (ISet, bool) {
	idx = w.ctabInRange(t, idx)
	vals, small := idx.Elems(4096)
	if !small {
		return nil, false
	}
	var out ISet
	for _, i := range vals {
		leaf := w.ctabAt(t, i)
		if leaf == nil {
			continue
		}
		var n *big.Int
		switch leaf.k {
		case 'i':
			n = leaf.n
		case 'b':
			n = bi(0)
			if leaf.b {
				n = bi(1)
			}
		default:
			return nil, false
		}
		if s.Intersect(ISet{{n, n}}).Empty() {
			continue
		}
		out = append(out, IV{bi(i), bi(i)})
	}
	return out.norm(), true
}
