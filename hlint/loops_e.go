package main

import (
	"go/token"
	"go/types"

	"golang.org/x/tools/go/ssa"
)

// literalRangeLoop: the loop runs a constant number of times over the elements
// of a fixed-size local array — `for _, x := range [...]T{a, b} {…}` (or the
// index form over such an array).  It is N copies of its body in a row, not an
// iteration over the data being processed.  Recognised by construction, not by
// name: the header holds a counter φ(const, φ+1) and leaves on
// `counter(+1) < N` with N a constant; the counter is used for nothing but its
// own increment, that test, and indexing arrays of exactly N elements that live
// in the frame (an alloc, or the value loaded from one).
func literalRangeLoop(lp *loopInfo) (int64, bool) {
	h := lp.header
	iff, ok := h.Instrs[len(h.Instrs)-1].(*ssa.If)
	if !ok {
		return 0, false
	}
	cmp, ok := iff.Cond.(*ssa.BinOp)
	if !ok || cmp.Op != token.LSS {
		return 0, false
	}
	nc, ok := cmp.Y.(*ssa.Const)
	if !ok || nc.Value == nil {
		return 0, false
	}
	if b, isB := nc.Type().Underlying().(*types.Basic); !isB || b.Info()&types.IsInteger == 0 {
		return 0, false
	}
	n := nc.Int64()
	// the counter and the value that is tested / used as the index
	var phi *ssa.Phi
	var inc *ssa.BinOp
	switch x := cmp.X.(type) {
	case *ssa.Phi:
		phi = x
	case *ssa.BinOp:
		if p, isPhi := x.X.(*ssa.Phi); isPhi && x.Op == token.ADD {
			phi, inc = p, x
		}
	}
	if phi == nil || phi.Block() != h || !lp.body[h.Succs[0]] || lp.body[h.Succs[1]] {
		return 0, false
	}
	if step, ok := counterStep(phi); !ok || step != 1 {
		return 0, false
	}
	var init *ssa.Const
	for i, e := range phi.Edges {
		if lp.body[h.Preds[i]] {
			continue
		}
		c, isC := e.(*ssa.Const)
		if !isC || c.Value == nil || (init != nil && init.Int64() != c.Int64()) {
			return 0, false
		}
		init = c
	}
	if init == nil {
		return 0, false
	}
	trips := n - init.Int64()
	if inc != nil {
		trips-- // the incremented value is tested: φ starts one below the first index
	}
	if trips < 0 || trips != n {
		return 0, false // the indices run over 0..N-1 exactly
	}
	isFrameArray := func(v ssa.Value) bool {
		switch a := v.(type) {
		case *ssa.Alloc:
			pt, _ := a.Type().Underlying().(*types.Pointer)
			if pt == nil {
				return false
			}
			arr, isArr := pt.Elem().Underlying().(*types.Array)
			return isArr && arr.Len() == n
		case *ssa.UnOp:
			if a.Op != token.MUL {
				return false
			}
			if _, isAl := a.X.(*ssa.Alloc); !isAl {
				return false
			}
			arr, isArr := a.Type().Underlying().(*types.Array)
			return isArr && arr.Len() == n
		}
		return false
	}
	okUses := func(v ssa.Value) bool {
		refs := v.Referrers()
		if refs == nil {
			return false
		}
		for _, r := range *refs {
			switch y := r.(type) {
			case *ssa.DebugRef:
			case *ssa.Phi:
				if y != phi {
					return false
				}
			case *ssa.BinOp:
				if y != inc && y != cmp && !(y.Op == token.ADD && y.X == v && counterIncOf(phi, y)) {
					return false
				}
			case *ssa.Index:
				if y.Index != v || !isFrameArray(y.X) {
					return false
				}
			case *ssa.IndexAddr:
				if y.Index != v || !isFrameArray(y.X) {
					return false
				}
			default:
				return false
			}
		}
		return true
	}
	if !okUses(phi) {
		return 0, false
	}
	if inc != nil && !okUses(inc) {
		return 0, false
	}
	if inc == nil {
		// index form: the increment feeds only the φ
		for _, e := range phi.Edges {
			if bo, isBo := e.(*ssa.BinOp); isBo && bo.X == ssa.Value(phi) {
				if refs := bo.Referrers(); refs == nil || len(*refs) != 1 {
					return 0, false
				}
			}
		}
	}
	return n, true
}

// counterIncOf: y is the increment edge of the counter φ.
func counterIncOf(phi *ssa.Phi, y *ssa.BinOp) bool {
	for _, e := range phi.Edges {
		if e == ssa.Value(y) {
			return true
		}
	}
	return false
}
