package main

import (
	"golang.org/x/tools/go/ssa"
)

// funcValuesOf: the functions a function-typed operand may denote, followed
// through conversions, φ-nodes and the results of statically resolved calls
// (a maker function `func mk(..) func() T { return func() T {…} }` denotes the
// literal it returns).  ok=false when some source of the value is not a
// function known statically (a parameter, a field load, a dynamic call).
func (w *World) funcValuesOf(v ssa.Value) ([]*ssa.Function, bool) {
	seen := map[ssa.Value]bool{}
	set := map[*ssa.Function]bool{}
	var out []*ssa.Function
	ok := true
	var visit func(v ssa.Value, depth int)
	visit = func(v ssa.Value, depth int) {
		if seen[v] {
			return
		}
		seen[v] = true
		if depth > 6 {
			ok = false
			return
		}
		switch x := v.(type) {
		case *ssa.ChangeType:
			visit(x.X, depth)
		case *ssa.MakeInterface:
			visit(x.X, depth)
		case *ssa.Function:
			if f := w.throughWrapper(x); !set[f] {
				set[f] = true
				out = append(out, f)
			}
		case *ssa.MakeClosure:
			visit(x.Fn, depth)
		case *ssa.Phi:
			for _, e := range x.Edges {
				visit(e, depth)
			}
		case *ssa.Call:
			sc := x.Call.StaticCallee()
			if sc == nil || sc.Blocks == nil || sc.Signature.Results().Len() != 1 {
				ok = false
				return
			}
			n := 0
			for _, b := range sc.Blocks {
				if ret, isRet := b.Instrs[len(b.Instrs)-1].(*ssa.Return); isRet && len(ret.Results) == 1 {
					n++
					visit(ret.Results[0], depth+1)
				}
			}
			if n == 0 {
				ok = false
			}
		default:
			ok = false
		}
	}
	visit(v, 0)
	return out, ok
}
