package main

import (
	"fmt"
	"go/token"
	"go/types"
	"os"
	"path/filepath"
	"sort"
	"strings"

	"golang.org/x/tools/go/callgraph"
	"golang.org/x/tools/go/callgraph/cha"
	"golang.org/x/tools/go/callgraph/vta"
	"golang.org/x/tools/go/packages"
	"golang.org/x/tools/go/ssa"
	"golang.org/x/tools/go/ssa/ssautil"
)

const hessianPath = "github.com/vogo/gohessian"

// Config is one analysed build configuration.
type Config struct {
	GOOS, GOARCH string
	Tags         string
	CHA          bool // use the CHA graph only (over-approximation) instead of VTA
}

func (c Config) String() string {
	s := c.GOOS + "/" + c.GOARCH
	if c.Tags != "" {
		s += "+" + c.Tags
	}
	if c.CHA {
		s += "(cha)"
	} else {
		s += "(vta)"
	}
	return s
}

// World is the resolved program of one configuration.
type World struct {
	idxErrPaths     []idxErrPath // scratch of pxIndexRun: error returns of the last exploration
	idxPX           *PX
	inputParam      map[*ssa.Parameter]bool // rules_num.go: parameters holding (parts of) the value being encoded
	fmtFwd          map[*ssa.Function]bool  // rules_fmtwalk.go: in-package functions forwarding variadic operands to fmt
	Cfg             Config
	Repo            string
	Fset            *token.FileSet
	Pkgs            []*packages.Package
	Prog            *ssa.Program
	Pkg             *ssa.Package // the hessian package
	TPkg            *types.Package
	Sizes           types.Sizes
	CG              *callgraph.Graph
	Funcs           map[string]*ssa.Function // by display name: "encodeInt", "(*Encoder).writeList", "ExtractTypeNameMap$1"
	NFiles          int
	flows           map[*ssa.Function]*Flow
	preds           map[*ssa.Function]*ISet // tag predicate summaries
	rets            map[retKey]ISet
	rolesCache      map[string]*ssa.Function
	roleNames       map[*ssa.Function]string // roles_discover.go: discovered function -> conventional role name
	initMem         *ceval                   // initvals.go: package variables after initialisation
	initOnly        map[*ssa.Function]bool   // frozen.go
	roGlobals       map[*ssa.Global]bool     // frozen.go
	frozen          map[*cell]bool           // frozen.go
	encCache        map[*ssa.Function]*encInfo
	lenEncCache     map[*ssa.Function]*lenEncInfo
	chunkReadCache  map[*ssa.Function][]chunkRead
	chunkTruncCache map[*ssa.Function]bool
	decCache        map[*ssa.Function]*decTab
	wCache          map[*ssa.Function]*writerInfo
	dispCache       map[string]*dispatch
	kindCache       map[kindRunKey]*kindRunResult
	etsCache        map[string]ISet
	ctabs           map[*ssa.Global]*ctabEntry // consttab.go
	ctabRefs        map[string]*ctabRef
	roCache         *roTables // roinit.go: read-only package tables
}

func loadWorld(repo string, cfg Config) (*World, error) {
	env := append(os.Environ(), "GOFLAGS=-mod=mod", "GOPROXY=off", "GOSUMDB=off", "GOTOOLCHAIN=local", "GOWORK=off", "CGO_ENABLED=0")
	if cfg.GOOS != "" {
		env = append(env, "GOOS="+cfg.GOOS)
	}
	if cfg.GOARCH != "" {
		env = append(env, "GOARCH="+cfg.GOARCH)
	}
	pc := &packages.Config{Mode: packages.LoadAllSyntax, Dir: repo, Env: env, Tests: false}
	if cfg.Tags != "" {
		pc.BuildFlags = []string{"-tags=" + cfg.Tags}
	}
	pkgs, err := packages.Load(pc, "./...")
	if err != nil {
		return nil, fmt.Errorf("load: %v", err)
	}
	if len(pkgs) == 0 {
		return nil, fmt.Errorf("load: no packages")
	}
	var errs []string
	packages.Visit(pkgs, nil, func(p *packages.Package) {
		for _, e := range p.Errors {
			errs = append(errs, e.Error())
		}
	})
	if len(errs) > 0 {
		return nil, fmt.Errorf("type-check errors: %s", strings.Join(errs, "; "))
	}
	prog, _ := ssautil.AllPackages(pkgs, ssa.InstantiateGenerics)
	prog.Build()
	w := &World{Cfg: cfg, Repo: repo, Fset: prog.Fset, Pkgs: pkgs, Prog: prog, Funcs: map[string]*ssa.Function{},
		flows: map[*ssa.Function]*Flow{}, preds: map[*ssa.Function]*ISet{}}
	for _, p := range pkgs {
		if p.PkgPath == hessianPath {
			w.Pkg = prog.Package(p.Types)
			w.TPkg = p.Types
			w.Sizes = p.TypesSizes
			w.NFiles = len(p.Syntax)
		}
	}
	if w.Pkg == nil {
		return nil, fmt.Errorf("package %s not found among %d packages", hessianPath, len(pkgs))
	}
	all := ssautil.AllFunctions(prog)
	for fn := range all {
		if fn.Pkg == w.Pkg || (fn.Parent() != nil && rootFn(fn).Pkg == w.Pkg) {
			if fn.Synthetic != "" && !strings.HasPrefix(fn.Name(), "init") {
				continue
			}
			w.Funcs[fnName(fn)] = fn
		}
	}
	chaG := cha.CallGraph(prog)
	if cfg.CHA {
		w.CG = chaG
	} else {
		w.CG = vta.CallGraph(all, chaG)
	}
	w.discoverRefRoles()
	return w, nil
}

func rootFn(fn *ssa.Function) *ssa.Function {
	for fn.Parent() != nil {
		fn = fn.Parent()
	}
	return fn
}

// fnName is the display name used in obligation keys: no package path.
func fnName(fn *ssa.Function) string {
	if fn == nil {
		return "<nil>"
	}
	if a, ok := roleAlias[fn]; ok {
		return a // a role found structurally under another source name (roles_ref.go)
	}
	if fn.Parent() != nil {
		return fnName(fn.Parent()) + "$" + strings.TrimPrefix(fn.Name(), fn.Parent().Name()+"$")
	}
	if recv := fn.Signature.Recv(); recv != nil {
		t := recv.Type()
		ptr := ""
		if p, ok := t.(*types.Pointer); ok {
			t = p.Elem()
			ptr = "*"
		}
		if n, ok := t.(*types.Named); ok {
			return "(" + ptr + n.Obj().Name() + ")." + fn.Name()
		}
	}
	return fn.Name()
}

func (w *World) inPkg(fn *ssa.Function) bool {
	return fn != nil && rootFn(fn).Pkg == w.Pkg
}

func (w *World) fn(name string) *ssa.Function {
	if f := w.Funcs[name]; f != nil {
		return f
	}
	return w.roleFallback(name)
}

// role is fn with the intent made explicit: the function playing a role.
func (w *World) role(name string) *ssa.Function { return w.fn(name) }

// SrcFuncs: all source functions of the hessian package, sorted by name.
func (w *World) SrcFuncs() []*ssa.Function {
	var out []*ssa.Function
	for _, f := range w.Funcs {
		if f.Blocks != nil {
			out = append(out, f)
		}
	}
	sort.Slice(out, func(i, j int) bool { return fnName(out[i]) < fnName(out[j]) })
	return out
}

func (w *World) pos(p token.Pos) string {
	if !p.IsValid() {
		return "-"
	}
	ps := w.Fset.Position(p)
	rel, err := filepath.Rel(w.Repo, ps.Filename)
	if err != nil {
		rel = ps.Filename
	}
	return fmt.Sprintf("%s:%d", rel, ps.Line)
}

// instrPos finds a usable position for an instruction (falls back to the
// nearest preceding instruction of the block, then to the function).
func (w *World) instrPos(in ssa.Instruction) string {
	if in == nil {
		return "-"
	}
	if in.Pos().IsValid() {
		return w.pos(in.Pos())
	}
	if v, ok := in.(ssa.Value); ok {
		_ = v
	}
	b := in.Block()
	if b != nil {
		idx := -1
		for i, x := range b.Instrs {
			if x == in {
				idx = i
			}
		}
		for i := idx; i >= 0; i-- {
			if b.Instrs[i].Pos().IsValid() {
				return w.pos(b.Instrs[i].Pos())
			}
		}
		for i := idx + 1; i >= 0 && i < len(b.Instrs); i++ {
			if b.Instrs[i].Pos().IsValid() {
				return w.pos(b.Instrs[i].Pos())
			}
		}
		return w.pos(b.Parent().Pos())
	}
	return "-"
}

// ---- call-graph helpers ----

// callees of a call instruction inside the analysed program (static callee,
// or the call-graph's resolution for dynamic calls).
func (w *World) calleesOf(site ssa.CallInstruction) []*ssa.Function {
	if f := site.Common().StaticCallee(); f != nil {
		if isWrapper(f) {
			// the thunk of a method expression, a bound-method closure: what it forwards to
			if cs := w.cgCallees(f); len(cs) > 0 {
				return cs
			}
		}
		return []*ssa.Function{f}
	}
	n := w.CG.Nodes[site.Parent()]
	if n == nil {
		return nil
	}
	var out []*ssa.Function
	for _, e := range n.Out {
		if e.Site == site && e.Callee.Func != nil {
			if c := e.Callee.Func; isWrapper(c) {
				if cs := w.cgCallees(c); len(cs) > 0 {
					out = append(out, cs...)
					continue
				}
			}
			out = append(out, e.Callee.Func)
		}
	}
	return out
}

// reach computes the set of functions reachable from the roots through the
// call graph (all functions, including other packages).
func (w *World) reach(roots ...*ssa.Function) map[*ssa.Function]bool {
	seen := map[*ssa.Function]bool{}
	var stack []*ssa.Function
	for _, r := range roots {
		if r != nil && !seen[r] {
			seen[r] = true
			stack = append(stack, r)
		}
	}
	for len(stack) > 0 {
		f := stack[len(stack)-1]
		stack = stack[:len(stack)-1]
		n := w.CG.Nodes[f]
		if n == nil {
			continue
		}
		for _, e := range n.Out {
			c := e.Callee.Func
			if c != nil && !seen[c] {
				seen[c] = true
				stack = append(stack, c)
			}
		}
		// closures created in f are considered reachable with f
		for _, af := range f.AnonFuncs {
			if !seen[af] {
				seen[af] = true
				stack = append(stack, af)
			}
		}
	}
	return seen
}

// reachPkg is reach restricted to functions of the hessian package; the walk
// does not continue through other packages (callbacks into the package from
// library code are found through the closures rule above and VTA edges).
func (w *World) reachPkg(roots ...*ssa.Function) map[*ssa.Function]bool {
	seen := map[*ssa.Function]bool{}
	var stack []*ssa.Function
	push := func(f *ssa.Function) {
		if f != nil && w.inPkg(f) && !seen[f] {
			seen[f] = true
			stack = append(stack, f)
		}
	}
	for _, r := range roots {
		push(r)
	}
	for len(stack) > 0 {
		f := stack[len(stack)-1]
		stack = stack[:len(stack)-1]
		for _, c := range w.cgCallees(f) {
			push(c)
		}
		for _, af := range f.AnonFuncs {
			push(af)
		}
	}
	return seen
}

// canReach: set of package functions from which one of targets is reachable.
func (w *World) canReach(targets map[*ssa.Function]bool) map[*ssa.Function]bool {
	out := map[*ssa.Function]bool{}
	for t := range targets {
		out[t] = true
	}
	for changed := true; changed; {
		changed = false
		for _, f := range w.SrcFuncs() {
			if out[f] {
				continue
			}
			for _, c := range w.cgCallees(f) {
				if out[c] {
					out[f] = true
					changed = true
					break
				}
			}
		}
	}
	return out
}

func sortedFnNames(m map[*ssa.Function]bool) []string {
	var out []string
	for f := range m {
		out = append(out, fnName(f))
	}
	sort.Strings(out)
	return out
}

// ---- type helpers ----

func isErrorType(t types.Type) bool {
	n, ok := t.(*types.Named)
	return ok && n.Obj().Pkg() == nil && n.Obj().Name() == "error"
}

// errIndex returns the index of the trailing error result of sig, or -1.
func errIndex(sig *types.Signature) int {
	r := sig.Results()
	if r.Len() == 0 {
		return -1
	}
	if isErrorType(r.At(r.Len() - 1).Type()) {
		return r.Len() - 1
	}
	return -1
}

func namedIs(t types.Type, pkgPath, name string) bool {
	if p, ok := t.(*types.Pointer); ok {
		t = p.Elem()
	}
	n, ok := t.(*types.Named)
	if !ok || n.Obj().Name() != name {
		return false
	}
	if n.Obj().Pkg() == nil {
		return pkgPath == ""
	}
	return n.Obj().Pkg().Path() == pkgPath
}

// structOf returns the named struct type `name` of the hessian package.
func (w *World) structOf(name string) (*types.Named, *types.Struct) {
	o := w.TPkg.Scope().Lookup(name)
	if o == nil {
		return nil, nil
	}
	n, ok := o.Type().(*types.Named)
	if !ok {
		return nil, nil
	}
	s, _ := n.Underlying().(*types.Struct)
	return n, s
}

// fieldIndexByType finds the unique field of struct `name` whose type string
// (relative to the package) equals typ.  Fields are located by type, not by
// name, so that renaming a field does not disturb the rules.
func (w *World) fieldByType(structName, typ string) (int, string) {
	_, s := w.structOf(structName)
	if s == nil {
		return -1, ""
	}
	idx, nm := -1, ""
	for i := 0; i < s.NumFields(); i++ {
		ts := types.TypeString(s.Field(i).Type(), func(p *types.Package) string {
			if p == w.TPkg {
				return ""
			}
			return p.Name()
		})
		if ts == typ {
			if idx >= 0 {
				return -1, "" // ambiguous
			}
			idx, nm = i, s.Field(i).Name()
		}
	}
	return idx, nm
}
