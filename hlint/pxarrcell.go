package main

// px: the fields of the elements of a frame-local array of structs as memory cells.
//
// `forms := [...]struct{ tag byte; read func(…) }{{x5b, fixed(0)}, {x5d,
// payload(1, conv)}, …}` scanned by `for i := len(forms); i != 0; { i--; if
// forms[i].tag == tag { return forms[i].read(r) } }`, or `compact :=
// [...]numberForm{{min, max, zero, 0, false}, …}` handed as `compact[:]` to a
// shared `encodeNumber(v, forms []numberForm, widest numberForm)` that ranges
// over it: a dispatch table built in the frame.  The field-version scheme of
// pxmem.go (one version per field of a TYPE) cannot keep such a table: the
// store into row 1 would hide row 0.  When the array is private — every use
// is `&arr[i]` (field addresses that are loaded from and stored to, loads of the
// whole element) or `arr[:]` handed down to static package callees that only
// read it (index, len, hand further down) — no other pointer can write its
// rows and every write is a store the explorer executes in the frame that
// owns the array, so (array, index, field) is an exact cell: a store at a
// decided index writes it, a load at a decided index reads it (a field never
// stored holds its zero value), a load of the whole row is the struct of its
// cells, a store at an undecided index (or in a summarised loop) forgets the
// field of every row.

import (
	"fmt"
	"go/token"
	"go/types"
	"strings"

	"golang.org/x/tools/go/ssa"
)

var privateArrayCache = map[*ssa.Alloc]bool{}

// elemAddrOK: the element address ia is used for loads of the element, for
// field addresses that are loaded from and (if allowStore) stored to.
func elemAddrOK(ia *ssa.IndexAddr, allowStore bool) bool {
	refs := ia.Referrers()
	if refs == nil {
		return false
	}
	for _, r := range *refs {
		switch y := r.(type) {
		case *ssa.DebugRef:
		case *ssa.UnOp:
			if y.Op != token.MUL {
				return false
			}
		case *ssa.FieldAddr:
			fr := y.Referrers()
			if fr == nil {
				return false
			}
			for _, r2 := range *fr {
				switch z := r2.(type) {
				case *ssa.DebugRef:
				case *ssa.UnOp:
					if z.Op != token.MUL {
						return false
					}
				case *ssa.Store:
					if !allowStore || z.Val == ssa.Value(y) || z.Addr != ssa.Value(y) {
						return false
					}
				default:
					return false
				}
			}
		default:
			return false
		}
	}
	return true
}

// readOnlySlice: the slice value v (a view of the whole array) is only indexed
// for reading, measured, or handed down to static package callees that do the same.
func (w *World) readOnlySlice(v ssa.Value, depth int) bool {
	refs := v.Referrers()
	if refs == nil || depth > 4 {
		return false
	}
	for _, r := range *refs {
		switch x := r.(type) {
		case *ssa.DebugRef:
		case *ssa.IndexAddr:
			if x.X != v || !elemAddrOK(x, false) {
				return false
			}
		case *ssa.Call:
			if bi, ok := x.Call.Value.(*ssa.Builtin); ok {
				if bi.Name() == "len" || bi.Name() == "cap" {
					continue
				}
				return false
			}
			if x.Call.IsInvoke() || x.Call.Value == v {
				return false
			}
			sc := x.Call.StaticCallee()
			if sc == nil || sc.Blocks == nil || !w.inPkg(sc) || len(sc.FreeVars) > 0 {
				return false
			}
			for ai, a := range x.Call.Args {
				if a != v {
					continue
				}
				if ai >= len(sc.Params) || !w.readOnlySlice(sc.Params[ai], depth+1) {
					return false
				}
			}
		default:
			return false
		}
	}
	return true
}

// privateLocalArray: al is an array allocated by this frame whose rows are only
// written by field stores through `&al[i]` in the allocating function.
func (w *World) privateLocalArray(al *ssa.Alloc) bool {
	if v, ok := privateArrayCache[al]; ok {
		return v
	}
	ok := func() bool {
		if _, isArr := localArrayLen(al); !isArr {
			return false
		}
		refs := al.Referrers()
		if refs == nil {
			return false
		}
		for _, r := range *refs {
			switch x := r.(type) {
			case *ssa.DebugRef:
			case *ssa.IndexAddr:
				if x.X != ssa.Value(al) || !elemAddrOK(x, true) {
					return false
				}
			case *ssa.Slice:
				if x.X != ssa.Value(al) || x.Low != nil || x.High != nil || x.Max != nil || !w.readOnlySlice(x, 0) {
					return false
				}
			default:
				return false
			}
		}
		return true
	}()
	privateArrayCache[al] = ok
	return ok
}

// arrayBase: the private local array an element address designates on the path
// (named directly, or through `arr[:]` handed down as a parameter).
func (p *PX) arrayBase(ia *ssa.IndexAddr, fr *pxFrame, st *pxState) (*Term, bool) {
	switch ia.X.(type) {
	case *ssa.Alloc, *ssa.Parameter, *ssa.Slice:
	default:
		return nil, false
	}
	base := p.term(ia.X, fr, st)
	if base == nil || base.K != TLeaf {
		return nil, false
	}
	al, isLocal := base.V.(*ssa.Alloc)
	if !isLocal || !p.w.privateLocalArray(al) {
		return nil, false
	}
	return base, true
}

func arrayCellPrefix(base *Term, field int) string {
	return fmt.Sprintf("acell:%s/%d/", base.key, field)
}

// decidedIndexKey: the value of the index when it has exactly one on the path.
func (p *PX) decidedIndexKey(iv ssa.Value, fr *pxFrame, st *pxState) (string, bool) {
	it := p.term(iv, fr, st)
	if it.K == TConst {
		return it.C.String(), true
	}
	if s, _ := p.evalTerm(it, st); s != nil && s.Card().Cmp(one) == 0 {
		return s.Min().String(), true
	}
	return "", false
}

// arrayCell: the cell a field address &arr[i].f of a private local array
// designates: the prefix shared by the field of all rows, the key of this row's
// field ("" when the index is not decided on the path).
func (p *PX) arrayCell(fa *ssa.FieldAddr, fr *pxFrame, st *pxState) (prefix, key string, ok bool) {
	ia, isIdx := fa.X.(*ssa.IndexAddr)
	if !isIdx {
		return "", "", false
	}
	base, isPriv := p.arrayBase(ia, fr, st)
	if !isPriv {
		return "", "", false
	}
	prefix = arrayCellPrefix(base, fa.Field)
	if ik, decided := p.decidedIndexKey(ia.Index, fr, st); decided {
		return prefix, prefix + ik, true
	}
	return prefix, "", true
}

func (p *PX) forgetPrefix(prefix string, st *pxState) {
	for k := range st.vals {
		if strings.HasPrefix(k, prefix) {
			delete(st.vals, k)
		}
	}
	// from now on an absent cell is unknown, not zero
	st.vals[prefix+"?"] = zeroTerm(types.Typ[types.Int])
}

// arrayCellStore: *(&arr[i].f) = vt.
func (p *PX) arrayCellStore(fa *ssa.FieldAddr, vt *Term, fr *pxFrame, st *pxState) {
	prefix, key, ok := p.arrayCell(fa, fr, st)
	if !ok {
		return
	}
	if key == "" {
		p.forgetPrefix(prefix, st)
		return
	}
	st.vals[key] = vt
}

// cellValue: what the cell holds: the value last stored, the zero value of the
// field when nothing was stored since the array was allocated, nil if unknown.
func (p *PX) cellValue(prefix, key string, ft types.Type, st *pxState) *Term {
	if t, ok := st.vals[key]; ok {
		return t
	}
	if _, forgotten := st.vals[prefix+"?"]; forgotten {
		return nil
	}
	return zeroOf(ft)
}

// arrayCellLoad: the value of &arr[i].f on this path, or nil.
func (p *PX) arrayCellLoad(fa *ssa.FieldAddr, fr *pxFrame, st *pxState) *Term {
	prefix, key, ok := p.arrayCell(fa, fr, st)
	if !ok || key == "" {
		return nil
	}
	ft, _ := componentType(fa.X.Type().Underlying().(*types.Pointer).Elem(), fa.Field)
	if ft == nil {
		return nil
	}
	return p.cellValue(prefix, key, ft, st)
}

// arrayRowLoad: *(&arr[i]) of a private local array of structs: the struct of
// the row's cells (nil unless the index is decided and every field is known).
func (p *PX) arrayRowLoad(ia *ssa.IndexAddr, fr *pxFrame, st *pxState) *Term {
	pt, ok := ia.Type().Underlying().(*types.Pointer)
	if !ok {
		return nil
	}
	stt, ok := pt.Elem().Underlying().(*types.Struct)
	if !ok || stt.NumFields() == 0 || stt.NumFields() > 12 {
		return nil
	}
	base, isPriv := p.arrayBase(ia, fr, st)
	if !isPriv {
		return nil
	}
	ik, decided := p.decidedIndexKey(ia.Index, fr, st)
	if !decided {
		return nil
	}
	var args []*Term
	var keys []string
	for i := 0; i < stt.NumFields(); i++ {
		prefix := arrayCellPrefix(base, i)
		t := p.cellValue(prefix, prefix+ik, stt.Field(i).Type(), st)
		if t == nil {
			return nil
		}
		args = append(args, t)
		keys = append(keys, t.key)
	}
	return &Term{K: TPure, Name: "struct", Args: args, T: pt.Elem(), key: "struct{" + strings.Join(keys, ",") + "}"}
}

// arrayCellHavoc: a store in a summarised loop may have hit any row.
func (p *PX) arrayCellHavoc(fa *ssa.FieldAddr, fr *pxFrame, st *pxState) {
	if ia, ok := fa.X.(*ssa.IndexAddr); ok {
		if base, ok := p.arrayBase(ia, fr, st); ok {
			p.forgetPrefix(arrayCellPrefix(base, fa.Field), st)
		}
	}
}

// arrayCellReset: the Alloc is executed (again): a new variable, all rows zero.
func (p *PX) arrayCellReset(al *ssa.Alloc, fr *pxFrame, st *pxState) {
	if _, isArr := localArrayLen(al); isArr && p.w.privateLocalArray(al) {
		pre := "acell:" + p.term(al, fr, st).key + "/"
		for k := range st.vals {
			if strings.HasPrefix(k, pre) {
				delete(st.vals, k)
			}
		}
	}
}
