package main

// px: the fields of the elements of a frame-local array of structs as memory cells.
//
// `forms := [...]struct{ tag byte; read func(…) }{{x5b, fixed(0)}, {x5d,
// payload(1, conv)}, …}` scanned by `for i := len(forms); i != 0; { i--; if
// forms[i].tag == tag { return forms[i].read(r) } }`: a dispatch table built in
// the frame.  The field-version scheme of pxmem.go (one version per field of a
// TYPE) cannot keep such a table: the store into row 1 would hide row 0.  When
// the array is private to its frame — every use is `&arr[i]`, used only for
// field addresses that are loaded from and stored to, or for a load of the whole
// element — no other pointer can designate its rows, so (array, index, field)
// is an exact cell: a store at a decided index writes it, a load at a decided
// index reads it, a store at an undecided index (or in a summarised loop)
// forgets the field of every row.

import (
	"fmt"
	"go/token"
	"go/types"
	"strings"

	"golang.org/x/tools/go/ssa"
)

var privateArrayCache = map[*ssa.Alloc]bool{}

// privateLocalArray: al is a local array whose elements are only reached
// through `&al[i]` used for field loads / field stores / element loads.
func privateLocalArray(al *ssa.Alloc) bool {
	if v, ok := privateArrayCache[al]; ok {
		return v
	}
	ok := func() bool {
		if _, isArr := localArrayLen(al); !isArr {
			return false
		}
		refs := al.Referrers()
		if refs == nil {
			return false
		}
		loadOrStoreTo := func(addr ssa.Value, allowStore bool) bool {
			rr := addr.Referrers()
			if rr == nil {
				return false
			}
			for _, r := range *rr {
				switch y := r.(type) {
				case *ssa.DebugRef:
				case *ssa.UnOp:
					if y.Op != token.MUL {
						return false
					}
				case *ssa.Store:
					if !allowStore || y.Val == addr || y.Addr != addr {
						return false
					}
				case *ssa.FieldAddr:
					// checked by the caller for element addresses only
					if allowStore {
						return false
					}
				default:
					return false
				}
			}
			return true
		}
		for _, r := range *refs {
			switch x := r.(type) {
			case *ssa.DebugRef:
			case *ssa.IndexAddr:
				if x.X != ssa.Value(al) {
					return false
				}
				// the element address: field addresses, whole-element loads; no whole-element store
				if !loadOrStoreTo(x, false) {
					return false
				}
				for _, rr := range *x.Referrers() {
					if fa, ok := rr.(*ssa.FieldAddr); ok && !loadOrStoreTo(fa, true) {
						return false
					}
				}
			default:
				return false
			}
		}
		return true
	}()
	privateArrayCache[al] = ok
	return ok
}

// arrayCell: the cell a field address &arr[i].f of a private local array
// designates: the prefix shared by the field of all rows, the key of this row's
// field ("" when the index is not decided on the path).
func (p *PX) arrayCell(fa *ssa.FieldAddr, fr *pxFrame, st *pxState) (prefix, key string, ok bool) {
	ia, isIdx := fa.X.(*ssa.IndexAddr)
	if !isIdx {
		return "", "", false
	}
	al, isLocal := ia.X.(*ssa.Alloc)
	if !isLocal || !privateLocalArray(al) {
		return "", "", false
	}
	if _, isStruct := fa.X.Type().Underlying().(*types.Pointer).Elem().Underlying().(*types.Struct); !isStruct {
		return "", "", false
	}
	prefix = fmt.Sprintf("acell:%s/%d/", p.reg(fr, al), fa.Field)
	it := p.term(ia.Index, fr, st)
	if it.K != TConst {
		if s, _ := p.evalTerm(it, st); s != nil && s.Card().Cmp(one) == 0 {
			return prefix, prefix + s.Min().String(), true
		}
		return prefix, "", true
	}
	return prefix, prefix + it.C.String(), true
}

func (p *PX) forgetPrefix(prefix string, st *pxState) {
	for k := range st.vals {
		if strings.HasPrefix(k, prefix) {
			delete(st.vals, k)
		}
	}
}

// arrayCellStore: *(&arr[i].f) = vt.
func (p *PX) arrayCellStore(fa *ssa.FieldAddr, vt *Term, fr *pxFrame, st *pxState) {
	prefix, key, ok := p.arrayCell(fa, fr, st)
	if !ok {
		return
	}
	if key == "" {
		p.forgetPrefix(prefix, st)
		return
	}
	st.vals[key] = vt
}

// arrayCellLoad: the value last stored into &arr[i].f on this path, or nil.
func (p *PX) arrayCellLoad(fa *ssa.FieldAddr, fr *pxFrame, st *pxState) *Term {
	if _, key, ok := p.arrayCell(fa, fr, st); ok && key != "" {
		return st.vals[key]
	}
	return nil
}

// arrayCellHavoc: a store in a summarised loop may have hit any row.
func (p *PX) arrayCellHavoc(fa *ssa.FieldAddr, fr *pxFrame, st *pxState) {
	if ia, ok := fa.X.(*ssa.IndexAddr); ok {
		if al, ok := ia.X.(*ssa.Alloc); ok && privateLocalArray(al) {
			p.forgetPrefix(fmt.Sprintf("acell:%s/%d/", p.reg(fr, al), fa.Field), st)
		}
	}
}

// arrayCellReset: the Alloc is executed (again): a new variable.
func (p *PX) arrayCellReset(al *ssa.Alloc, fr *pxFrame, st *pxState) {
	if _, isArr := localArrayLen(al); isArr && privateLocalArray(al) {
		p.forgetPrefix("acell:"+p.reg(fr, al)+"/", st)
	}
}
