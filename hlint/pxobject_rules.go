package main

// The object writer checked as a production, path by path:
//
//	object ::= date-scalar | ref | [ 'C' string int string* ] ( x60+idx | 'O' int ) value*
//
// Every helper of the writer is stepped into (the definition writer, the
// definition lookup, header helpers), so the rule does not depend on how the
// writer is cut into functions.  What it decides per path:
//   - the emission order is a sentence (or, on an error path, a prefix) of the
//     production: a definition is complete before the instance header;
//   - when a definition is emitted, the table of definitions grows by exactly
//     one entry on that path and the index announced is the length the table
//     had before that append (index = position);
//   - when none is emitted, the index is the counter of the search loop that
//     indexes the table in a comparison (the entry that matched);
//   - the definition carries NumField names, the k-th one derived from the
//     k-th field of the same type through the case helper, and the class name
//     is the name-map value or the type name.

import (
	"fmt"
	"regexp"
	"strings"

	"golang.org/x/tools/go/ssa"
)

type objPath struct {
	hasDef   bool
	defDone  bool
	cls      *Term
	clsPos   string
	count    *Term
	names    []pxEvent
	idx      *Term
	idxEnv   Env
	idxPos   string
	compact  bool
	appends  []pxEvent
	complete bool
	alt      string // "date", "ref", "object"
	fail     string
	failPos  string
}

var reFieldOf = regexp.MustCompile(`^fld\(pure:\(reflect\.Type\)\.Field\((.*),(\d+)\),\.0\)$`)

func (w *World) parseObjectPath(p wPath) objPath {
	op := objPath{}
	state := "start"
	for _, e := range p.Trace {
		switch {
		case e.Kind == "fieldstore":
			// an append stored into a field of the Encoder (the definition table); a slice
			// built with append and stored into the definition being assembled is not one
			if len(e.Args) == 1 && e.Args[0].K == TPure && e.Args[0].Name == "append" && strings.HasSuffix(e.Extra[:strings.LastIndex(e.Extra, ".")], ".Encoder") {
				op.appends = append(op.appends, e)
			}
			continue
		case e.Kind == "loophead", e.Kind == "register", e.Kind == "typetest", strings.HasPrefix(e.Kind, "encode:"):
			continue
		}
		bad := func(msg string) {
			if op.fail == "" {
				op.fail, op.failPos = fmt.Sprintf("%s at %s while expecting %s", msg, e.Pos, state), e.Pos
			}
		}
		switch e.Kind {
		case "octets":
			if e.Extra == "unmodelled" || len(e.Args) != 1 || e.Args[0] == nil {
				bad("an octet emission that could not be modelled")
				continue
			}
			s, _ := w.evalEv(e.Args[0], e.Env)
			switch {
			case s != nil && s.Equal(single('C')) && state == "start":
				op.hasDef, op.alt, state = true, "object", "class name"
			case s != nil && s.SubsetOf(mkSet(0x60, 0x6f)) && (state == "start" || state == "names"):
				if _, base, sh, ok := w.termTagPlus(e.Args[0]); ok && sh == 0 {
					op.idx = stripConv(w, base)
				} else if e.Args[0].K == TConst {
					op.idx = e.Args[0]
				}
				op.idxEnv, op.idxPos, op.compact = e.Env, e.Pos, true
				if state == "names" {
					op.defDone = true
				}
				op.alt, state = "object", "values"
			case s != nil && s.Equal(single('O')) && (state == "start" || state == "names"):
				if state == "names" {
					op.defDone = true
				}
				op.alt, state = "object", "index"
			default:
				bad(fmt.Sprintf("octet %s", s.HexString()))
			}
		case "scalar:string":
			switch state {
			case "class name":
				op.cls, op.clsPos, state = e.Args[0], e.Pos, "count"
			case "names":
				op.names = append(op.names, e)
			default:
				bad("a string")
			}
		case "scalar:int":
			switch state {
			case "count":
				op.count, state = e.Args[0], "names"
			case "index":
				op.idx, op.idxEnv, op.idxPos, state = stripConv(w, e.Args[0]), e.Env, e.Pos, "values"
			default:
				bad("an int")
			}
		case "scalar:date":
			if state == "start" {
				op.alt, state = "date", "done"
			} else {
				bad("a date")
			}
		case "ref":
			if state == "start" {
				op.alt, state = "ref", "done"
			} else {
				bad("a back-reference")
			}
		case "value", "list", "map", "object":
			if state != "values" {
				bad("a field value")
			}
		default:
			bad("emission " + e.Kind)
		}
	}
	op.complete = state == "values" || state == "done"
	return op
}

// ruleObjectProduction replaces the per-function class-definition rules.
func (w *World) ruleObjectProduction(r *Report, ruleIdx, ruleNames string) {
	wo := w.fn("(*Encoder).writeObject")
	if wo == nil {
		r.undecided(ruleIdx, "(*Encoder).writeObject", "-", "anchor not found")
		return
	}
	wi := w.writerPaths(wo)
	if wi.truncated {
		r.undecided(ruleIdx, "(*Encoder).writeObject", w.pos(wo.Pos()), "path exploration exceeded its budget")
		return
	}
	type verdict struct {
		ok   bool
		fact string
		pos  string
		n    int
	}
	vs := map[string]*verdict{}
	order := []string{}
	get := func(k string) *verdict {
		if vs[k] == nil {
			vs[k] = &verdict{ok: true, pos: w.pos(wo.Pos())}
			order = append(order, k)
		}
		return vs[k]
	}
	fail := func(k, fact, pos string) {
		v := get(k)
		if v.ok {
			v.ok, v.fact, v.pos = false, fact, pos
		}
	}
	kOrder := "(*Encoder).writeObject · emission order is the object production"
	kNew := "(*Encoder).writeObject · a new definition is appended once and announced at its position"
	kOld := "(*Encoder).writeObject · a known definition is announced at the index of the matching entry"
	kCls := "class definition · class name"
	kCnt := "class definition · field count"
	kNam := "class definition · field names"
	for _, k := range []string{kOrder, kNew, kOld, kCls, kCnt, kNam} {
		get(k)
	}
	helpers := map[*ssa.Function]bool{}
	nDef, nKnown, nObj := 0, 0, 0
	for _, p := range wi.paths {
		op := w.parseObjectPath(p)
		get(kOrder).n++
		if op.fail != "" {
			fail(kOrder, op.fail, op.failPos)
			continue
		}
		if p.ErrNil && !op.complete {
			fail(kOrder, "a path that can report success at "+p.Pos+" ends before the production is complete", p.Pos)
			continue
		}
		if op.alt != "object" || !p.ErrNil || op.idx == nil {
			if op.alt == "object" && p.ErrNil && op.idx == nil {
				fail(kNew, "the index announced at "+op.idxPos+" could not be expressed", op.idxPos)
			}
			continue
		}
		nObj++
		if op.hasDef {
			nDef++
			get(kNew).n++
			switch {
			case len(op.appends) != 1:
				fail(kNew, fmt.Sprintf("a path emitting a definition (instance header at %s) appends to the definition table %d times: the decoder appends exactly one entry per definition", op.idxPos, len(op.appends)), op.idxPos)
			default:
				old := op.appends[0].Args[0].Args[0]
				want := "len(" + old.key + ")"
				if op.idx.key != want {
					fail(kNew, fmt.Sprintf("the index announced at %s is %s; the new definition sits at %s (length of the table before the append at %s)", op.idxPos, op.idx.key, want, op.appends[0].Pos), op.idxPos)
				} else if get(kNew).fact == "" {
					get(kNew).fact = fmt.Sprintf("index announced at %s = %s = length of the table before the append at %s; the definition is emitted before the instance header", op.idxPos, want, op.appends[0].Pos)
				}
			}
			// names
			get(kCls).n++
			if okc, f := w.classNameTerm(op.cls); !okc {
				fail(kCls, f+" (written at "+op.clsPos+")", op.clsPos)
			} else if get(kCls).fact == "" {
				get(kCls).fact = f
			}
			get(kCnt).n++
			cnt := stripConv(w, op.count)
			tkey := ""
			switch {
			case cnt.K == TPure && cnt.Name == "(reflect.Type).NumField" && len(cnt.Args) == 1:
				tkey = cnt.Args[0].key
			case cnt.K == TPure && cnt.Name == "(reflect.Value).NumField" && len(cnt.Args) == 1:
				tkey = "pure:(reflect.Value).Type(" + cnt.Args[0].key + ")"
			default:
				fail(kCnt, "the field count written is "+cnt.key+", not NumField of the type", op.idxPos)
			}
			if tkey != "" {
				// on this path the loop ran len(names) times: the count must agree
				if s, _ := w.evalEv(cnt, p.Env); s == nil || !s.Contains(int64(len(op.names))) {
					fail(kCnt, fmt.Sprintf("a path writes %d field names while the count written (%s) is ∈ %s", len(op.names), cnt.key, s), op.idxPos)
				} else if get(kCnt).fact == "" {
					get(kCnt).fact = "count written = " + cnt.key + "; on every explored path the number of names written is a possible value of it"
				}
				get(kNam).n++
				for k, ne := range op.names {
					var o *Term
					if len(ne.Orig) > 0 {
						o = ne.Orig[0]
					}
					if o == nil || len(o.Args) < 1 {
						fail(kNam, fmt.Sprintf("name #%d written at %s is %s: not the result of the case helper applied to a field name", k, ne.Pos, ne.Args[0].key), ne.Pos)
						continue
					}
					arg := o.Args[len(o.Args)-1]
					m := reFieldOf.FindStringSubmatch(arg.key)
					if m == nil || m[1] != tkey || m[2] != fmt.Sprint(k) {
						fail(kNam, fmt.Sprintf("name #%d written at %s derives from %s; expected the Name of field %d of %s", k, ne.Pos, arg.key, k, tkey), ne.Pos)
						continue
					}
					if c, ok := o.V.(*ssa.Call); ok && c.Call.StaticCallee() != nil {
						helpers[c.Call.StaticCallee()] = true
					}
					if get(kNam).fact == "" {
						get(kNam).fact = "the k-th name written is " + o.Name + "(Field(k).Name) of the type whose NumField is the count"
					}
				}
			}
		} else {
			nKnown++
			get(kOld).n++
			if len(op.appends) != 0 {
				fail(kOld, "a path without a definition appends to the definition table at "+op.appends[0].Pos+": encoder and decoder tables diverge", op.appends[0].Pos)
				continue
			}
			okf, f := w.foundIndex(op.idx)
			if !okf {
				fail(kOld, fmt.Sprintf("index announced at %s is %s: %s", op.idxPos, op.idx.key, f), op.idxPos)
			} else if get(kOld).fact == "" {
				get(kOld).fact = f
			}
		}
	}
	for _, k := range order {
		v := vs[k]
		rule := ruleIdx
		if strings.HasPrefix(k, "class definition") {
			rule = ruleNames
		}
		if v.ok && v.n == 0 {
			r.add(rule, k, v.pos, false, "no path of the object writer exercises this obligation: the construct was not recognised")
			continue
		}
		if v.fact == "" {
			v.fact = fmt.Sprintf("%d paths", v.n)
		}
		r.add(rule, k, v.pos, v.ok, v.fact)
	}
	r.floor(ruleIdx+" (object paths: definition / known)", min(nDef, nKnown), 2)
	r.note("object writer: %d paths, %d complete object paths (%d with a definition, %d without)", len(wi.paths), nObj, nDef, nKnown)
	for h := range helpers {
		w.ruleCaseHelperFn(r, ruleNames, h, 'A', 'Z', 32)
	}
	if len(helpers) == 0 {
		r.undecided(ruleNames, "case helper of the field names", "-", "no helper call found between the field name and the name written")
	}
}

// classNameTerm: the class name written is nameMap[T.Name()] or T.Name().
func (w *World) classNameTerm(t *Term) (bool, string) {
	if t == nil {
		return false, "no class name"
	}
	if t.K == TPure && t.Name == "(reflect.Type).Name" {
		return true, "class name = nameMap[typ.Name()] or typ.Name() on a miss"
	}
	if ex, ok := t.V.(*ssa.Extract); ok && ex.Index == 0 {
		// (the key may be a parameter of an accessor `registeredName(typName) (string, bool)`:
		// resolved to what every static caller passes, fieldvia.go termContainsVia)
		if lk, ok := ex.Tuple.(*ssa.Lookup); ok {
			if o, _, okf := w.fieldOfLoad(lk.X); okf && o == "Encoder" {
				if w.termContainsVia(lk.Index, "(reflect.Type).Name", 0) {
					return true, "class name = nameMap[typ.Name()] or typ.Name() on a miss"
				}
			}
		}
	}
	if lk, ok := t.V.(*ssa.Lookup); ok && !lk.CommaOk {
		if o, _, okf := w.fieldOfLoad(lk.X); okf && o == "Encoder" {
			if w.termContainsVia(lk.Index, "(reflect.Type).Name", 0) {
				return true, "class name = nameMap[typ.Name()] or typ.Name() on a miss"
			}
		}
	}
	return false, "the class name written is " + t.key + ": neither the name-map value for the type name nor the type name"
}

// foundIndex: idx is the counter of a search loop and indexes an Encoder
// table whose entry takes part in a comparison.
func (w *World) foundIndex(idx *Term) (bool, string) {
	// the counter itself, or counter+c (a range loop counts from -1 and uses φ+1)
	var cands []ssa.Value
	if phi, ok := idx.V.(*ssa.Phi); ok && idx.K == TLeaf {
		cands = append(cands, phi)
	} else if idx.K == TBin && idx.B.K == TConst && idx.A.K == TLeaf {
		if phi, ok := idx.A.V.(*ssa.Phi); ok {
			for _, ref := range *phi.Referrers() {
				if bo, ok := ref.(*ssa.BinOp); ok && bo.Op == idx.Op && bo.X == ssa.Value(phi) {
					if c, ok := bo.Y.(*ssa.Const); ok && c.Value != nil && c.Int64() == idx.B.C.Int64() {
						cands = append(cands, bo)
					}
				}
			}
		}
	}
	if len(cands) == 0 {
		return false, "not the counter of the lookup loop"
	}
	var refs []ssa.Instruction
	for _, c := range cands {
		refs = append(refs, *c.Referrers()...)
	}
	for _, ref := range refs {
		ia, ok := ref.(*ssa.IndexAddr)
		if !ok {
			continue
		}
		if o, _, okf := w.fieldOfLoadVia(ia.X); !okf || o != "Encoder" {
			continue
		}
		// the entry read through ia reaches a comparison
		seen := map[ssa.Value]bool{}
		var reach func(v ssa.Value, d int) bool
		reach = func(v ssa.Value, d int) bool {
			if d > 5 || seen[v] || v.Referrers() == nil {
				return false
			}
			seen[v] = true
			for _, r2 := range *v.Referrers() {
				switch x := r2.(type) {
				case *ssa.BinOp:
					if x.Op.String() == "==" || x.Op.String() == "!=" {
						return true
					}
				case *ssa.Call:
					if sc := x.Call.StaticCallee(); sc != nil {
						switch qualifiedFnName(sc) {
						case "strings.Compare", "strings.EqualFold":
							return true
						}
					}
				case *ssa.UnOp, *ssa.FieldAddr, *ssa.Field:
					if reach(x.(ssa.Value), d+1) {
						return true
					}
				case *ssa.Store:
					// the entry copied into a local variable (`for i, def := range table` keeps
					// the element in the loop variable): what is read back from the variable
					if al, isLocal := x.Addr.(*ssa.Alloc); isLocal && x.Val == v {
						if reach(al, d+1) {
							return true
						}
					}
				}
			}
			return false
		}
		if reach(ia, 0) {
			return true, "the index announced is the counter of the lookup loop at the entry whose name compared equal (" + w.instrPos(ia) + ")"
		}
	}
	return false, "the loop counter does not index the definition table in a comparison"
}
