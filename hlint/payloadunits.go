package main

// Payload units (C06.R2 / C09.R1 read side) over the path explorer.
//
// Roles are discovered from what the functions do, not from their names:
//   - a payload read of a decoder is a call handing the stream and a buffer to
//     a reader (see chunkdec.go); strings must be pulled into []rune buffers
//     (one character per counted unit), binaries into []byte buffers by a
//     primitive that fills the buffer completely;
//   - the character reader is the package function a string payload read
//     calls; explored path by path (0, 1, 2 loop iterations) it must store
//     the rune of the k-th ReadRune call at index k-1, leave without error only
//     when the buffer is full, and report the number of characters stored;
//   - stream readers (the character reader, and every package function that
//     takes the stream and returns a freshly read slice) reject nothing but a
//     failed read: each non-nil error they return is the error result of a
//     read on the stream.

import (
	"fmt"
	"sort"
	"strings"

	"golang.org/x/tools/go/ssa"
)

// streamErrOrigin: the call whose error result term t is, if that call reads
// from a stream (interface method on a stream, or a library function handed a
// stream).
func (w *World) streamErrOrigin(t *Term) (string, bool) {
	if t == nil || t.K != TLeaf {
		return "", false
	}
	ex, ok := t.V.(*ssa.Extract)
	if !ok {
		return "", false
	}
	c, ok := ex.Tuple.(*ssa.Call)
	if !ok {
		return "", false
	}
	if c.Call.IsInvoke() {
		if isStreamType(c.Call.Value.Type()) {
			return "(" + typeStr(c.Call.Value.Type()) + ")." + c.Call.Method.Name(), true
		}
		return "", false
	}
	// the method value of a stream method called as a function (streamfv.go)
	if rt, m, ok := boundStreamWrapper(c.Call.StaticCallee()); ok {
		return "(" + typeStr(rt) + ")." + m, true
	}
	sc := c.Call.StaticCallee()
	if sc == nil || w.inPkg(sc) {
		return "", false
	}
	for _, a := range c.Call.Args {
		if isStreamType(a.Type()) {
			return qualifiedFnName(sc), true
		}
	}
	return "", false
}

// errKnownNil: the path has decided that error term t is nil.
func errKnownNil(t *Term, env Env) bool {
	if strings.HasPrefix(t.key, "nil:") {
		return true
	}
	if s, has := env["("+t.key+" != nil:error)"]; has && s.Equal(single(0)) {
		return true
	}
	if s, has := env["("+t.key+" == nil:error)"]; has && s.Equal(single(1)) {
		return true
	}
	return false
}

// ruleStreamErrors: every non-nil error fn returns is a stream read's error.
func (w *World) ruleStreamErrors(r *Report, rule string, fn *ssa.Function) {
	idx := errIndex(fn.Signature)
	if idx < 0 {
		return
	}
	okAll, fact := true, "every error returned is the underlying reader's error"
	n := 0
	var px *PX
	px = w.newPX(pxHooks{
		onReturn: func(fr *pxFrame, ret *ssa.Return, results []*Term, st *pxState) {
			if isNilConst(ret.Results[idx]) || errKnownNil(results[idx], st.env) {
				return
			}
			n++
			if _, ok := w.streamErrOrigin(results[idx]); !ok {
				okAll = false
				fact = "the error returned at " + w.instrPos(ret) + " is " + describeVal(ret.Results[idx], nil) + ", not a read failure: some payload content is rejected"
			}
		},
	})
	px.Run(fn, nil)
	key := fnName(fn) + " · rejects nothing but a failed read"
	if px.Truncated {
		r.undecided(rule, key, w.pos(fn.Pos()), "path exploration exceeded its budget")
		return
	}
	r.add(rule, key, w.pos(fn.Pos()), okAll, fmt.Sprintf("%s [%d error return path(s)]", fact, n))
}

// ruleRuneFill: the character reader fills its buffer one ReadRune at a time.
func (w *World) ruleRuneFill(r *Report, rule string, fn *ssa.Function) {
	key := fnName(fn) + " · one ReadRune per buffer element"
	var buf *ssa.Parameter
	for _, p := range fn.Params {
		if isRuneSlice(p.Type()) {
			buf = p
		}
	}
	idx := errIndex(fn.Signature)
	cnt := -1
	for i := 0; i < fn.Signature.Results().Len(); i++ {
		if typeStr(fn.Signature.Results().At(i).Type()) == "int" {
			cnt = i
		}
	}
	if buf == nil || idx < 0 {
		r.undecided(rule, key, w.pos(fn.Pos()), "no []rune buffer parameter / error result")
		return
	}
	bk := "<p:" + buf.Name() + ">"
	ok, bad := true, ""
	fail := func(f string, a ...interface{}) {
		if ok {
			ok, bad = false, fmt.Sprintf(f, a...)
		}
	}
	full, maxK := 0, 0
	var px *PX
	px = w.newPX(pxHooks{
		onInstr: func(fr *pxFrame, in ssa.Instruction, st *pxState) bool {
			switch x := in.(type) {
			case *ssa.Call:
				if _, method, isRead := w.streamReadCall(x, px, fr, st); isRead {
					st.trace = append(st.trace, pxEvent{Kind: "read", Call: x, Extra: method + "|" + px.term(x, fr, st).key, Pos: w.instrPos(x)})
				}
			case *ssa.Store:
				if ia, isIA := x.Addr.(*ssa.IndexAddr); isIA && px.term(ia.X, fr, st).key == bk {
					st.trace = append(st.trace, pxEvent{Kind: "store", Args: []*Term{px.term(ia.Index, fr, st), px.term(x.Val, fr, st)}, Pos: w.instrPos(x)})
				}
			}
			return true
		},
		onReturn: func(fr *pxFrame, ret *ssa.Return, results []*Term, st *pxState) {
			pos := w.instrPos(ret)
			// the events must alternate read, store; store k goes to index k-1 and holds the rune just read
			k, pending := 0, ""
			for _, e := range st.trace {
				switch e.Kind {
				case "read":
					parts := strings.SplitN(e.Extra, "|", 2)
					if parts[0] != "ReadRune" {
						fail("the stream is read with %s at %s: not one character per buffer element", parts[0], e.Pos)
					}
					if pending != "" {
						fail("the character read before %s is not stored", e.Pos)
					}
					pending = parts[1]
				case "store":
					is, _ := px.evalTerm(e.Args[0], st)
					if is == nil || !is.Equal(single(int64(k))) {
						fail("store #%d at %s goes to index %s, not %d", k+1, e.Pos, is, k)
					}
					if pending == "" || e.Args[1].key != "<x#0"+pending+">" {
						fail("the value stored at %s is %s, not the character just read", e.Pos, e.Args[1].key)
					}
					pending = ""
					k++
				}
			}
			if k > maxK {
				maxK = k
			}
			isErr := !isNilConst(ret.Results[idx]) && !errKnownNil(results[idx], st.env)
			if cnt >= 0 {
				if cs, _ := px.evalTerm(results[cnt], st); cs == nil || !cs.Equal(single(int64(k))) {
					fail("the return at %s reports %s characters after storing %d", pos, cs, k)
				}
			}
			if isErr {
				return
			}
			if pending != "" {
				fail("a character read is dropped before the return at %s", pos)
			}
			L, _ := px.evalTerm(px.lenTerm(&Term{K: TLeaf, V: buf, T: buf.Type(), key: bk}, tInt), st)
			if L == nil || !L.Equal(single(int64(k))) {
				fail("the return at %s succeeds after %d character(s) with a buffer of length %s: the buffer is not filled", pos, k, L)
			}
			full++
		},
	})
	px.Run(fn, nil)
	if px.Truncated {
		r.undecided(rule, key, w.pos(fn.Pos()), "path exploration exceeded its budget")
		return
	}
	if ok && (full < 3 || maxK < 2) {
		ok, bad = false, fmt.Sprintf("only %d successful path(s) with up to %d character(s) explored: the fill loop was not recognised", full, maxK)
	}
	fact := bad
	if ok {
		fact = fmt.Sprintf("on %d successful paths (0..%d characters) store k holds the rune of the k-th ReadRune at index k-1, success only with a full buffer, the count returned is the number stored", full, maxK)
	}
	r.add(rule, key, w.pos(fn.Pos()), ok, fact)
}

func (w *World) rulePayloadUnits(r *Report, rule string) {
	runeReaders := map[*ssa.Function]bool{}
	for _, cn := range []string{"string", "binary"} {
		c := w.codecs()[cn]
		if c == nil || c.Dec == nil {
			r.undecided(rule, cn+" decoder", "-", "not found")
			continue
		}
		want := map[string]string{"string": "rune", "binary": "byte"}[cn]
		unit := map[string]string{"string": "character", "binary": "octet"}[cn]
		reads, trunc := w.chunkReadsOf(c.Dec)
		if trunc {
			r.undecided(rule, fnName(c.Dec)+" · payload read", w.pos(c.Dec.Pos()), "path exploration exceeded its budget")
			continue
		}
		type agg struct {
			ok   bool
			fact string
			pos  string
		}
		sites := map[string]*agg{}
		var order []string
		for _, cr := range reads {
			k := cr.site + "@" + cr.pos
			if sites[k] != nil {
				continue
			}
			a := &agg{ok: cr.elem == want, pos: cr.pos}
			a.fact = fmt.Sprintf("payload pulled by %s into a []%s: one %s per counted unit", cr.site, cr.elem, unit)
			if !a.ok {
				a.fact = fmt.Sprintf("payload pulled by %s into a []%s: the length counts %ss", cr.site, cr.elem, unit)
			}
			switch {
			case cr.callee != nil && w.inPkg(cr.callee):
				if cr.elem == "rune" {
					runeReaders[cr.callee] = true
				} else {
					a.ok = false
					a.fact += "; the reader " + cr.site + " is not a primitive known to fill the buffer"
				}
			case cr.callee != nil && qualifiedFnName(cr.callee) == "io.ReadFull":
			case cr.callee != nil && qualifiedFnName(cr.callee) == "io.ReadAtLeast" && cr.min == "len":
			default:
				a.ok = false
				a.fact += "; " + cr.site + " may return fewer units than the buffer holds"
			}
			sites[k] = a
			order = append(order, k)
		}
		sort.Strings(order)
		cnt := map[string]int{}
		for _, k := range order {
			a := sites[k]
			name := k[:strings.Index(k, "@")]
			cnt[name]++
			r.add(rule, fmt.Sprintf("%s · payload read #%d %s", fnName(c.Dec), cnt[name], name), a.pos, a.ok, a.fact)
		}
		if len(order) == 0 {
			r.add(rule, fnName(c.Dec)+" · payload read", w.pos(c.Dec.Pos()), false, "no call hands the stream and a []"+want+" buffer to a reader: the payload is not read in "+unit+" units")
		}
	}
	var rr []*ssa.Function
	for f := range runeReaders {
		rr = append(rr, f)
	}
	sort.Slice(rr, func(i, j int) bool { return fnName(rr[i]) < fnName(rr[j]) })
	if len(rr) == 0 {
		r.undecided(rule, "character reader", "-", "no package function is handed the stream and a []rune buffer by the string decoder")
	}
	for _, f := range rr {
		w.ruleRuneFill(r, rule, f)
	}
	// stream readers reject nothing but a failed read
	readers := map[*ssa.Function]bool{}
	for f := range runeReaders {
		readers[f] = true
	}
	var roots []*ssa.Function
	for _, cn := range []string{"string", "binary"} {
		if c := w.codecs()[cn]; c != nil && c.Dec != nil {
			roots = append(roots, c.Dec)
		}
	}
	for f := range w.reachPkg(roots...) {
		sig := f.Signature
		if f.Blocks == nil || sig.Results().Len() != 2 || !isErrorType(sig.Results().At(1).Type()) {
			continue
		}
		if t := sig.Results().At(0).Type(); !isByteSlice(t) && !isRuneSlice(t) {
			continue
		}
		stream, plain := false, true
		for i := 0; i < sig.Params().Len(); i++ {
			pt := sig.Params().At(i).Type()
			switch {
			case isStreamType(pt):
				stream = true
			case typeStr(pt) == "int":
			default:
				plain = false
			}
		}
		if stream && plain {
			readers[f] = true
		}
	}
	var rs []*ssa.Function
	for f := range readers {
		rs = append(rs, f)
	}
	sort.Slice(rs, func(i, j int) bool { return fnName(rs[i]) < fnName(rs[j]) })
	for _, f := range rs {
		w.ruleStreamErrors(r, rule, f)
	}
	r.floor(rule+" (stream readers)", len(rs), 2)
}
