package main

// Package-level lookup tables.
//
// A comparison chain rewritten as a table (`var isRef = [256]bool{'Q': true}`,
// `var owns = [32]bool{reflect.Slice: true, reflect.Map: true}`, a pair of
// 256-entry case tables filled by a function run at initialisation) computes
// the same function of the index.  The content of such a table is a fact of
// the program text provided nothing writes it after package initialisation:
//
//   - the variable is an array of booleans / integers of the analysed package;
//   - its elements are stored only in the package initialiser, either one by
//     one at constant indices with constant values (composite literal), or as
//     a whole from a result of a parameterless package function whose single
//     path the explorer runs to the end with every store at a known index;
//   - everywhere else it is only read: indexed and loaded, copied, or its
//     address handed to package functions whose parameter is only read.
//
// px then reads `table[i]`: a constant when i is known on the path, otherwise
// a term consttable:<name>(i) that an `if table[i]` refines into facts about i
// (the set of indices holding true / false) and that evaluates to the image of
// the values i can take.

import (
	"go/constant"
	"go/token"
	"go/types"
	"math/big"

	"golang.org/x/tools/go/ssa"
)

type constTab struct {
	name   string
	vals   []*big.Int
	elem   types.Type
	isBool bool
}

var constTabCache = map[*ssa.Global]*constTab{}
var constTabByName = map[string]*constTab{}
var constTabBusy = map[*ssa.Global]bool{}

func (w *World) constTable(g *ssa.Global) *constTab {
	if t, ok := constTabCache[g]; ok {
		return t
	}
	if constTabBusy[g] {
		return nil
	}
	constTabBusy[g] = true
	t := w.buildConstTable(g)
	delete(constTabBusy, g)
	constTabCache[g] = t
	if t != nil {
		constTabByName[t.name] = t
	}
	return t
}

func (w *World) buildConstTable(g *ssa.Global) *constTab {
	if g.Pkg != w.Pkg {
		return nil
	}
	pt, ok := g.Type().Underlying().(*types.Pointer)
	if !ok {
		return nil
	}
	arr, ok := pt.Elem().Underlying().(*types.Array)
	if !ok || arr.Len() <= 0 || arr.Len() > 4096 {
		return nil
	}
	eb, ok := arr.Elem().Underlying().(*types.Basic)
	if !ok || eb.Info()&(types.IsBoolean|types.IsInteger) == 0 {
		return nil
	}
	tab := &constTab{name: g.Name(), vals: make([]*big.Int, arr.Len()), elem: arr.Elem(), isBool: eb.Info()&types.IsBoolean != 0}
	var whole *ssa.Store
	elemStores := 0
	isInit := func(fn *ssa.Function) bool { return fn.Name() == "init" && fn.Parent() == nil && fn.Pkg == w.Pkg }
	for _, fn := range w.allPkgFuncs() {
		for _, b := range fn.Blocks {
			for _, in := range b.Instrs {
				uses := false
				for _, op := range in.Operands(nil) {
					if *op == ssa.Value(g) {
						uses = true
					}
				}
				if !uses {
					continue
				}
				switch x := in.(type) {
				case *ssa.DebugRef:
				case *ssa.UnOp:
					if x.Op != token.MUL {
						return nil
					}
				case *ssa.Store:
					if x.Addr != ssa.Value(g) || !isInit(fn) || whole != nil {
						return nil
					}
					whole = x
				case *ssa.IndexAddr:
					if x.X != ssa.Value(g) || x.Referrers() == nil {
						return nil
					}
					for _, ref := range *x.Referrers() {
						switch y := ref.(type) {
						case *ssa.DebugRef:
						case *ssa.UnOp:
							if y.Op != token.MUL {
								return nil
							}
						case *ssa.Store:
							if y.Addr != ssa.Value(x) || !isInit(fn) {
								return nil
							}
							ic, ok1 := x.Index.(*ssa.Const)
							vc, ok2 := y.Val.(*ssa.Const)
							if !ok1 || !ok2 || ic.Value == nil || vc.Value == nil {
								return nil
							}
							i := ic.Int64()
							if i < 0 || i >= arr.Len() || tab.vals[i] != nil {
								return nil
							}
							v, ok := constBig(vc)
							if !ok {
								return nil
							}
							tab.vals[i] = v
							elemStores++
						default:
							return nil
						}
					}
				case *ssa.Call:
					sc := x.Call.StaticCallee()
					if sc == nil || !w.inPkg(sc) || sc.Blocks == nil || x.Call.Value == ssa.Value(g) {
						return nil
					}
					for ai, a := range x.Call.Args {
						if a != ssa.Value(g) {
							continue
						}
						if ai >= len(sc.Params) || !w.paramOnlyRead(sc.Params[ai], map[ssa.Value]bool{}) {
							return nil
						}
					}
				default:
					return nil
				}
			}
		}
	}
	switch {
	case whole != nil && elemStores > 0:
		return nil
	case whole != nil:
		vals := w.evalTableInit(whole.Val, int(arr.Len()))
		if vals == nil {
			return nil
		}
		tab.vals = vals
	default:
		for i := range tab.vals {
			if tab.vals[i] == nil {
				tab.vals[i] = new(big.Int) // the zero value
			}
		}
	}
	return tab
}

func constBig(c *ssa.Const) (*big.Int, bool) {
	switch c.Value.Kind() {
	case constant.Bool:
		if constant.BoolVal(c.Value) {
			return big.NewInt(1), true
		}
		return new(big.Int), true
	case constant.Int:
		v, ok := new(big.Int).SetString(c.Value.ExactString(), 10)
		return v, ok
	}
	return nil, false
}

// paramOnlyRead: a pointer-to-array parameter that is only indexed and loaded,
// or handed on to package functions that do the same.
func (w *World) paramOnlyRead(p ssa.Value, seen map[ssa.Value]bool) bool {
	if seen[p] {
		return true
	}
	seen[p] = true
	if p.Referrers() == nil {
		return false
	}
	for _, ref := range *p.Referrers() {
		switch x := ref.(type) {
		case *ssa.DebugRef:
		case *ssa.UnOp:
			if x.Op != token.MUL {
				return false
			}
		case *ssa.IndexAddr:
			if x.X != p || x.Referrers() == nil {
				return false
			}
			for _, r2 := range *x.Referrers() {
				switch y := r2.(type) {
				case *ssa.DebugRef:
				case *ssa.UnOp:
					if y.Op != token.MUL {
						return false
					}
				default:
					return false
				}
			}
		case *ssa.Call:
			sc := x.Call.StaticCallee()
			if sc == nil || !w.inPkg(sc) || sc.Blocks == nil || x.Call.Value == p {
				return false
			}
			for ai, a := range x.Call.Args {
				if a == p && (ai >= len(sc.Params) || !w.paramOnlyRead(sc.Params[ai], seen)) {
					return false
				}
			}
		default:
			return false
		}
	}
	return true
}

// evalTableInit: the array value stored into the table by the initialiser: a
// result of a parameterless package function, run to its end on its single path.
func (w *World) evalTableInit(v ssa.Value, n int) []*big.Int {
	var call *ssa.Call
	ri := 0
	switch x := v.(type) {
	case *ssa.Extract:
		c, ok := x.Tuple.(*ssa.Call)
		if !ok {
			return nil
		}
		call, ri = c, x.Index
	case *ssa.Call:
		call = x
	default:
		return nil
	}
	sc := call.Call.StaticCallee()
	if sc == nil || !w.inPkg(sc) || sc.Blocks == nil || len(sc.Params) != 0 || len(sc.FreeVars) != 0 {
		return nil
	}
	var out []*big.Int
	paths := 0
	var px *PX
	px = w.newPX(pxHooks{
		inline: func(fr *pxFrame, callee *ssa.Function) bool { return false },
		onReturn: func(fr *pxFrame, ret *ssa.Return, results []*Term, st *pxState) {
			paths++
			if paths > 1 || ri >= len(ret.Results) {
				out = nil
				return
			}
			ld, ok := ret.Results[ri].(*ssa.UnOp)
			if !ok || ld.Op != token.MUL {
				return
			}
			al, ok := ld.X.(*ssa.Alloc)
			if !ok {
				return
			}
			bs := px.byteSeqOf(al, fr, st)
			if bs == nil || len(bs.Oct) != n || bs.Open {
				return
			}
			vals := make([]*big.Int, n)
			for i, o := range bs.Oct {
				if o == nil || o.K != TConst {
					return
				}
				vals[i] = o.C
			}
			out = vals
		},
	})
	px.Run(sc, nil)
	if px.Truncated || paths != 1 {
		return nil
	}
	return out
}

// tableOfBase: the constant table an index expression reads, if its base is
// the table itself or a pointer to it handed down as an argument.
func (p *PX) tableOfBase(base ssa.Value, fr *pxFrame, st *pxState) *constTab {
	switch x := base.(type) {
	case *ssa.Global:
		return p.w.constTable(x)
	case *ssa.Parameter:
		// (the address of a package variable is a leaf, or — when the initialiser
		// stores into the variable — a read-only address term of pxro.go)
		if t, ok := fr.subst[x]; ok && t != nil {
			if g, ok := t.V.(*ssa.Global); ok && (t.K == TLeaf || (t.K == TPure && t.Name == "ro&" && len(t.Args) == 0)) {
				return p.w.constTable(g)
			}
		}
	}
	return nil
}

// tableLoad: the term of `*(&table[i])`.
func (p *PX) tableLoad(ia *ssa.IndexAddr, t types.Type, fr *pxFrame, st *pxState) *Term {
	tab := p.tableOfBase(ia.X, fr, st)
	if tab == nil {
		return nil
	}
	it := p.term(ia.Index, fr, st)
	if s, _ := p.evalTerm(it, st); s != nil && s.Card().Cmp(one) == 0 && s.Min().IsInt64() {
		i := s.Min().Int64()
		if i < 0 || i >= int64(len(tab.vals)) {
			return nil
		}
		v := tab.vals[i]
		if tab.isBool {
			b := v.Sign() != 0
			return &Term{K: TBoolConst, Bool: b, T: t, key: map[bool]string{true: "true", false: "false"}[b]}
		}
		return &Term{K: TConst, C: v, T: t, key: v.String()}
	}
	return &Term{K: TPure, Name: "consttable:" + tab.name, Args: []*Term{it}, T: t, key: "consttable:" + tab.name + "(" + it.key + ")"}
}

// tableCond: c is `table[i]` / `!table[i]` of a boolean table: the facts about
// i on the true and on the false edge (nil env: the edge is infeasible).
func (p *PX) tableCond(c *Term, env Env) (te, fe Env, ok bool) {
	neg := false
	for c != nil && c.K == TNot {
		c, neg = c.A, !neg
	}
	if c == nil || c.K != TPure || len(c.Args) != 1 || len(c.Name) < 11 || c.Name[:11] != "consttable:" {
		return nil, nil, false
	}
	tab := constTabByName[c.Name[11:]]
	if tab == nil || !tab.isBool {
		return nil, nil, false
	}
	var tset, fset ISet
	for i, v := range tab.vals {
		iv := ISet{{big.NewInt(int64(i)), big.NewInt(int64(i))}}
		if v.Sign() != 0 {
			tset = tset.Union(iv)
		} else {
			fset = fset.Union(iv)
		}
	}
	idx := c.Args[0]
	cur, _ := p.f.Eval(idx, env)
	mk := func(s ISet) Env {
		if cur != nil {
			s = s.Intersect(cur)
		}
		if s.Empty() {
			return nil
		}
		out := env.clone()
		p.f.assign(out, idx, s)
		return out
	}
	te, fe = mk(tset), mk(fset)
	if neg {
		te, fe = fe, te
	}
	return te, fe, true
}

// constTableImage: the values table[i] can take for i in idx (evalStruct).
func constTableImage(name string, idx ISet) ISet {
	tab := constTabByName[name]
	if tab == nil {
		return nil
	}
	var out ISet
	for i, v := range tab.vals {
		if idx == nil || idx.Contains(int64(i)) {
			out = out.Union(ISet{{v, v}})
		}
	}
	return out
}
