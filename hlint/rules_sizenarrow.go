package main

// Sizes written on the wire are not narrowed below 32 bits (C02.R10 / C01.R3b).
//
// Element counts, field counts and reference ordinals travel as Hessian ints
// (32 bits).  A size — `len(x)`, `v.Len()`, `v.NumField()`, `t.NumField()` —
// converted directly to an integer type of fewer than 32 bits in a function
// from which a destination write is reachable loses its high bits for every
// container longer than that type holds (`int32(int16(vv.Len()))`: a list of
// 40 000 elements announces -25 536).  A conversion dominated by a comparison
// of the same size with a constant is a guarded compact form; its exactness
// is decided by the interval rule C01.R3, not here.  (Found by the structural mutation
// sweep of round 8.)

import (
	"fmt"
	"go/token"

	"golang.org/x/tools/go/ssa"
)

func isSizeCall(v ssa.Value) (string, bool) {
	c, ok := v.(*ssa.Call)
	if !ok {
		return "", false
	}
	if b, ok := c.Call.Value.(*ssa.Builtin); ok && (b.Name() == "len" || b.Name() == "cap") {
		return b.Name(), true
	}
	if sc := c.Call.StaticCallee(); sc != nil {
		switch qualifiedFnName(sc) {
		case "(reflect.Value).Len", "(reflect.Value).NumField", "(reflect.Value).Cap":
			return qualifiedFnName(sc), true
		}
	}
	if c.Call.IsInvoke() && (c.Call.Method.Name() == "NumField" || c.Call.Method.Name() == "Len") && typeStr(c.Call.Value.Type()) == "reflect.Type" {
		return "(reflect.Type)." + c.Call.Method.Name(), true
	}
	return "", false
}

func (w *World) ruleSizesNotNarrowed(r *Report, rule string, min int) {
	closure := w.writeClosure()
	n := 0
	for _, fn := range w.SrcFuncs() {
		if !(closure[fn] || closure[rootFn(fn)]) || fn.Blocks == nil {
			continue
		}
		k := 0
		for _, b := range fn.Blocks {
			for _, in := range b.Instrs {
				cv, ok := in.(*ssa.Convert)
				if !ok {
					continue
				}
				what, isSize := isSizeCall(cv.X)
				if !isSize {
					continue
				}
				db, _, ok := intTypeInfo(w, cv.Type())
				if !ok {
					continue
				}
				n++
				k++
				good := db >= 32
				if !good {
					// an instance only when the narrowed size is widened again at once
					// (`int32(int16(n))`): the value is wanted at 32 bits and has been
					// squeezed through fewer on the way.  A narrow value used as such
					// (a compact header octet) is the interval rule's business (C01.R3),
					// wherever its guard lives.
					rewidened := false
					if cv.Referrers() != nil {
						for _, ref := range *cv.Referrers() {
							if c2, ok := ref.(*ssa.Convert); ok {
								if b2, _, ok := intTypeInfo(w, c2.Type()); ok && b2 > db {
									rewidened = true
								}
							}
						}
					}
					if !rewidened {
						r.add(rule, fmt.Sprintf("%s · conversion #%d of a size (%s)", fnName(fn), k, what), w.instrPos(cv), true, fmt.Sprintf("converted to %s and used at that width: a compact form, decided by the interval rule C01.R3", typeStr(cv.Type())))
						continue
					}
				}
				guarded := false
				if !good {
					// under a comparison of the same size with a constant: a guarded
					// compact form, whose exactness is the interval proof of C01.R3
					sameSize := func(v ssa.Value) bool {
						if cc, ok := v.(*ssa.Convert); ok {
							v = cc.X
						}
						w2, ok := isSizeCall(v)
						if !ok || w2 != what {
							return false
						}
						a, b := v.(*ssa.Call), cv.X.(*ssa.Call)
						if len(a.Call.Args) != len(b.Call.Args) {
							return false
						}
						for i := range a.Call.Args {
							if a.Call.Args[i] != b.Call.Args[i] {
								return false
							}
						}
						return a.Call.Value == b.Call.Value || a.Call.StaticCallee() != nil
					}
					isConst := func(v ssa.Value) bool {
						if cc, ok := v.(*ssa.Convert); ok {
							v = cc.X
						}
						_, ok := v.(*ssa.Const)
						return ok
					}
					for d := b.Idom(); d != nil && !guarded; d = d.Idom() {
						if iff, ok := d.Instrs[len(d.Instrs)-1].(*ssa.If); ok {
							if bo, ok := iff.Cond.(*ssa.BinOp); ok && ((sameSize(bo.X) && isConst(bo.Y)) || (sameSize(bo.Y) && isConst(bo.X))) {
								// the side on which the size is bounded above
								upper := bo.Op == token.LEQ || bo.Op == token.LSS
								lower := bo.Op == token.GEQ || bo.Op == token.GTR
								if sameSize(bo.Y) {
									upper, lower = lower, upper
								}
								side := -1
								if upper {
									side = 0
								} else if lower {
									side = 1
								}
								if side >= 0 && len(d.Succs) == 2 && (d.Succs[side] == b || d.Succs[side].Dominates(b)) {
									guarded = true
								}
							}
						}
					}
				}
				if guarded {
					r.add(rule, fmt.Sprintf("%s · conversion #%d of a size (%s)", fnName(fn), k, what), w.instrPos(cv), true, fmt.Sprintf("converted to %s under a comparison of the same size with a constant: a guarded compact form (its exactness is the interval proof of C01.R3)", typeStr(cv.Type())))
					continue
				}
				r.add(rule, fmt.Sprintf("%s · conversion #%d of a size (%s)", fnName(fn), k, what), w.instrPos(cv), good, map[bool]string{
					true:  fmt.Sprintf("converted to %s: at least the 32 bits of a wire int", typeStr(cv.Type())),
					false: fmt.Sprintf("converted to %s (%d bits): every container with more elements than that type holds announces a wrong count or ordinal", typeStr(cv.Type()), db)}[good])
			}
		}
	}
	r.floor(rule+" (direct conversions of sizes on the encode path)", n, 1)
}
