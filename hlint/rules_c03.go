package main

import (
	"fmt"
	"go/token"
	"go/types"
	"golang.org/x/tools/go/callgraph"
	"strings"

	"golang.org/x/tools/go/ssa"
)

func init() {
	register("C03", rulesC03,
		"Decides structural necessary conditions of 'the decoder accepts every legal encoding': "+
			"R0 the tag-handed-on protocol (getTag returns byte(flag) unless flag is the fresh-tag constant, then reads one octet); "+
			"R1 dispatch coverage — for all 256 first octets the top-level dispatcher's first-match arm (computed from exact tag-predicate summaries and branch refinement, arm order honoured) is the reader of the production the frozen Hessian 2.0 table assigns to that octet, reserved octets reach the error arm, and list tags resolve in ReadList to the typed/untyped reader with the tag handed on; "+
			"R2 reader coverage — each scalar decoder accepts every tag of every spec form of its production and pulls exactly the form's payload; the string/binary length readers pull the right number of header octets and compute a length inside the form's range; "+
			"R3 no dropped look-ahead — at every scalar read that asks for a fresh tag, the set of values of the tag octet already consumed on that path (call-site context for tag parameters) is disjoint from the first-octet set of the production read, so the consumed octet cannot have been that value's first octet; "+
			"R4 sibling readers of the typed-map and typed-list headers read the type through the type reader (literal or back-reference, numbered once); "+
			"R5 in each chunk loop the buffer handed to the payload reader after a new chunk header is sized from that header on every path (no loop-carried buffer); "+
			"R6 sentinel-terminated list loops leave on the terminator (shared with C06.R3). "+
			"Does NOT decide equality of the decoded values across encodings.",
		"obligation = one spec form (dispatch, reader), one fresh-tag read, one header reader, one chunk-loop back edge; 256 tags are resolved per run; non-trivial = needs tag-set refinement or call-site context",
		"the frozen table hlint/spec.go is the Hessian 2.0 bytecode map")
}

func rulesC03(w *World, r *Report) {
	w.ruleSizeTables(r, "C03.R13 a size-by-first-octet table agrees with the grammar")
	// a decoder that keeps a numbering table from the previous message resolves
	// the type / class / object references of a legal encoding to stale entries
	includeIf(w, r, "C11", "the decoder's tables start empty for every message", 3, func(o *Obligation) bool {
		return strings.Contains(o.Key, "C11.R1") && strings.Contains(o.Key, "· Decoder.")
	})
	w.ruleLocalIndexInRange(r, "C03.R8 element accesses of local containers are in range", 3)
	w.ruleAppendStartsEmpty(r, "C03.R9 a container grown by appending starts empty", 2)
	{
		reach := w.reachPkg(w.decodeEntryPoints()...)
		w.ruleAccessorKinds(r, "C03.R11 reflect accessors meet the kind they require", func(fn *ssa.Function) bool { return reach[fn] || reach[rootFn(fn)] })
	}
	{
		reach := w.reachPkg(w.decodeEntryPoints()...)
		w.ruleCommaOkSides(r, "C03.R12 a looked-up type or entry is used on the side where the lookup succeeded", 5, func(fn *ssa.Function) bool { return reach[fn] || reach[rootFn(fn)] })
	}
	w.ruleReadersAcceptSpecTags(r, "C03.R10 a container reader accepts every tag of its production", 3)
	w.ruleCountGuardsTight(r, "C03.R7 count guards refuse only negative counts", 3)
	w.ruleIndexGuardsTightPX(r, "C03.R7 index guards refuse only invalid indices")
	w.ruleGetTagProtocol(r, "C03.R0 tag hand-on protocol")
	w.ruleDispatchCoverage(r, "C03.R1 dispatch coverage")
	for _, c := range []string{"int", "long", "double", "date", "bool"} {
		w.ruleDecoderForms(r, "C03.R2 reader coverage", c)
	}
	for _, c := range []string{"int", "long", "double", "date", "bool", "string", "binary"} {
		w.ruleWrapperForwards(r, "C03.R2 read wrappers forward the decoder", c)
	}
	w.ruleDateSpecUnit(r, "C03.R2 reader coverage")
	w.ruleLenReader(r, "C03.R2 reader coverage", "string")
	w.ruleLenReader(r, "C03.R2 reader coverage", "binary")
	w.ruleLookAhead(r, "C03.R3 no dropped look-ahead")
	w.ruleHeaderSiblings(r, "C03.R4 typed headers read the type through the type reader")
	w.ruleLiteralTypeNumberedPX(r, "C03.R4 typed headers read the type through the type reader")
	w.ruleChunkBuffers(r, "C03.R5 chunk length governs the read size")
	w.ruleChunkContinuation(r, "C03.R5 only a non-final chunk is followed by another")
	w.ruleLoopExits(r, "C03.R6 variable-length lists end on the terminator", true)
	w.ruleHolderChangePX(r, "C03.R6 variable-length lists keep every element")
	r.note("spec table digest %s", specDigest())
	include(w, r, "C04")
	include(w, r, "C05")
}

// ruleDateSpecUnit: the unit in which the date decoder interprets each form's
// payload must be the specification's (x4a milliseconds, x4b minutes).
func (w *World) ruleDateSpecUnit(r *Report, rule string) {
	c := w.codecs()["date"]
	if c == nil || c.Dec == nil {
		r.undecided(rule, "date decoder", "-", "not found")
		return
	}
	want := map[int]string{0x4a: "milliseconds", 0x4b: "minutes"}
	for _, t := range []int{0x4a, 0x4b} {
		unit, pos := w.decoderDateUnit(c.Dec, t)
		r.add(rule, fmt.Sprintf("%s · unit of date form x%02x", fnName(c.Dec), t), pos, unit == want[t], fmt.Sprintf("payload interpreted as %s; the grammar defines it as %s", unit, want[t]))
	}
}

// ruleGetTagProtocol.
func (w *World) ruleGetTagProtocol(r *Report, rule string) {
	fn := w.fn("getTag")
	if fn == nil {
		r.undecided(rule, "getTag", "-", "anchor not found")
		return
	}
	f := w.flow(fn)
	var flag *ssa.Parameter
	for _, p := range fn.Params {
		if typeStr(p.Type()) == "int32" {
			flag = p
		}
	}
	if flag == nil {
		r.undecided(rule, "getTag", w.pos(fn.Pos()), "no int32 flag parameter")
		return
	}
	fk := f.term(flag)
	okHand, okFresh := false, false
	bad := ""
	for _, b := range fn.Blocks {
		ret, ok := b.Instrs[len(b.Instrs)-1].(*ssa.Return)
		if !ok || !f.Reachable(b) {
			continue
		}
		fs, _ := f.Eval(fk, f.At(b))
		t := f.term(ret.Results[0])
		switch {
		case t.K == TConv && t.A.Key() == fk.Key():
			if fs.Contains(-1) {
				bad = "byte(flag) is returned also for the fresh-tag constant"
			} else {
				okHand = true
			}
		default:
			// must be the forwarded result of readTag, and only for flag == -1
			ex, isEx := ret.Results[0].(*ssa.Extract)
			if isEx {
				if c, isC := ex.Tuple.(*ssa.Call); isC && c.Call.StaticCallee() != nil && fnName(c.Call.StaticCallee()) == "readTag" && fs.Equal(single(-1)) {
					okFresh = true
					continue
				}
			}
			bad = "unexpected return " + ret.Results[0].String() + " at " + w.instrPos(ret)
		}
	}
	r.add(rule, "getTag", w.pos(fn.Pos()), okHand && okFresh && bad == "", "returns byte(flag) iff flag != -1, otherwise reads exactly one octet"+map[bool]string{true: "", false: "; " + bad}[bad == ""])
}

// paramCtxEnv: for every integer parameter of fn, the union over the in-package
// call sites of the values passed for it (entry facts for a context-sensitive
// run of fn).  A parameter some site passes an unknown value for is left out;
// nil when fn has no static in-package call site or can be called from outside.
func (w *World) paramCtxEnv(fn *ssa.Function) Env {
	if token.IsExported(fn.Name()) {
		return nil
	}
	sets := make([]ISet, len(fn.Params))
	unknown := make([]bool, len(fn.Params))
	sites := 0
	for _, caller := range w.SrcFuncs() {
		for _, cs := range w.callSitesIn(caller) {
			if cs.call.Call.StaticCallee() != fn || len(cs.call.Call.Args) != len(fn.Params) {
				continue
			}
			sites++
			f := w.flow(caller)
			for i, p := range fn.Params {
				if _, ok := typeRange(w, p.Type()); !ok {
					continue
				}
				s, _ := f.ValueAt(cs.call.Call.Args[i], cs.call.Block())
				if s == nil {
					unknown[i] = true
					continue
				}
				sets[i] = sets[i].Union(s)
			}
		}
	}
	// call sites through a function value: an entry of a constant table of
	// functions called as `table[x](…, x, …)` receives, for x, only the indices at
	// which the table holds this function
	if n := w.CG.Nodes[fn]; n != nil {
		seenSite := map[ssa.CallInstruction]bool{}
		in := append([]*callgraph.Edge(nil), n.In...)
		// a method expression kept as a value (`{typedListTag, (*Decoder).readTypedList}`) is
		// called through a synthetic thunk with the method's own operands: the sites calling
		// the thunk through a function value are call sites of fn
		for _, e := range n.In {
			if e.Caller.Func != nil && e.Caller.Func != fn && w.unthunk(e.Caller.Func) == fn {
				in = append(in, e.Caller.In...)
			}
		}
		for _, e := range in {
			c, ok := e.Site.(*ssa.Call)
			if !ok || c.Call.StaticCallee() != nil || c.Call.IsInvoke() || seenSite[c] || e.Caller.Func == nil || !w.inPkg(e.Caller.Func) {
				continue
			}
			seenSite[c] = true
			if len(c.Call.Args) != len(fn.Params) {
				continue
			}
			sites++
			idxVal, at := w.ctabFuncIndices(c.Call.Value, fn)
			f := w.flow(e.Caller.Func)
			for i, p := range fn.Params {
				if _, ok := typeRange(w, p.Type()); !ok {
					continue
				}
				s, _ := f.ValueAt(c.Call.Args[i], c.Block())
				if s == nil {
					unknown[i] = true
					continue
				}
				if idxVal != nil && c.Call.Args[i] == idxVal {
					s = s.Intersect(at)
				} else if idxVal == nil && c.Call.Args[i] == w.tagSymbolOf(e.Caller.Func) {
					// the function value comes out of a table the caller walks itself (first-match
					// loop over `{accepts, read}` rows): the caller's dispatch map, explored tag by
					// tag with the function values followed, says for which tags this call hands
					// the tag to fn
					if d := w.dispatchOf(e.Caller.Func, nil); d != nil {
						var tags ISet
						for t := 0; t < 256; t++ {
							if d.callee[t] == fnName(fn) && d.handed[t] {
								tags = append(tags, IV{bi(int64(t)), bi(int64(t))})
							}
						}
						if tags = tags.norm(); !tags.Empty() {
							s = s.Intersect(tags)
						}
					}
				}
				sets[i] = sets[i].Union(s)
			}
		}
	}
	if sites == 0 {
		return nil
	}
	env := Env{}
	names := map[string]int{}
	for _, p := range fn.Params {
		if _, ok := typeRange(w, p.Type()); ok {
			names[p.Name()]++ // blank parameters share the name "_"
		}
	}
	for i, p := range fn.Params {
		if sets[i] != nil && !unknown[i] && names[p.Name()] == 1 {
			env["<p:"+p.Name()+">"] = sets[i]
		}
	}
	return env
}

// ctabFuncIndices: v is `table[x]` read out of a constant table of functions;
// returns x and the set of indices at which the table holds fn.
func (w *World) ctabFuncIndices(v ssa.Value, fn *ssa.Function) (ssa.Value, ISet) {
	g, steps, ok := w.ctabValueChain(v)
	if !ok {
		return nil, nil
	}
	var idx ssa.Value
	for _, s := range steps {
		if s.index != nil {
			if idx != nil {
				return nil, nil
			}
			idx = s.index
		}
	}
	if idx == nil {
		return nil, nil
	}
	cell, _ := w.cvTable(g)
	var at ISet
	for i := int64(0); i < 1<<16; i++ {
		leaf, ok := w.ctabResolve(cell, steps, func(ssa.Value) (int64, bool) { return i, true })
		if !ok {
			break
		}
		if leaf.k == 'f' && leaf.fn == fn {
			at = append(at, IV{bi(i), bi(i)})
		}
	}
	return idx, at.norm()
}

// ruleLookAhead.
func (w *World) ruleLookAhead(r *Report, rule string) {
	cs := w.codecs()
	n := 0
	var covered ISet
	for _, fn := range w.SrcFuncs() {
		// the Decoder's methods, and functions handed the Decoder explicitly (the
		// arms of a tag switch kept as entries of a table of functions)
		onDecoder := false
		if recv := fn.Signature.Recv(); recv != nil {
			onDecoder = namedIs(recv.Type(), hessianPath, "Decoder")
		} else {
			for _, p := range fn.Params {
				if _, isPtr := p.Type().(*types.Pointer); isPtr && namedIs(p.Type(), hessianPath, "Decoder") {
					onDecoder = true
				}
			}
		}
		if !onDecoder {
			continue
		}
		tag := w.tagSymbolOf(fn)
		if tag == nil {
			continue
		}
		var f *Flow
		if _, isParam := tag.(*ssa.Parameter); isParam {
			// call-site context for the tag and for every other integer
			// parameter (a helper may be handed the tag values it compares with)
			if ctx := w.paramCtxEnv(fn); len(ctx) == 0 {
				f = w.flow(fn)
			} else {
				f = w.flowCtx(fn, ctx)
			}
		} else {
			f = w.flow(fn)
		}
		tk := f.term(tag)
		cnt := map[string]int{}
		for _, site := range w.callSitesIn(fn) {
			sc := site.call.Call.StaticCallee()
			if sc == nil {
				continue
			}
			prod := ""
			for _, c := range cs {
				if sc == c.Wrap || sc == c.Dec {
					prod = c.Name
				}
			}
			var first ISet
			fresh := false
			switch {
			case prod != "":
				// flag argument must be the fresh-tag constant
				args := site.call.Call.Args
				if k, ok := args[len(args)-1].(*ssa.Const); ok && k.Value != nil && k.Int64() == -1 {
					fresh = true
				}
				first = specTags(prod, "")
				if prod == "string" {
					first = first.Union(single('N'))
				}
			case fnName(sc) == "(*Decoder).readType":
				fresh = true
				prod = "type"
				first = specTags("string", "").Union(specTags("int", ""))
			}
			if !fresh {
				continue
			}
			if in, ok := tag.(ssa.Instruction); ok {
				if !in.Block().Dominates(site.call.Block()) {
					continue
				}
				if in.Block() == site.call.Block() {
					// the tag must have been read before the call
					before := false
					for _, x := range in.Block().Instrs {
						if x == in {
							before = true
						}
						if x == ssa.Instruction(site.call) {
							break
						}
					}
					if !before {
						continue
					}
				}
			}
			n++
			cnt[site.callee]++
			S, _ := f.ValueAt(tag, site.call.Block())
			_ = tk
			covered = covered.Union(S)
			inter := S.Intersect(first)
			r.add(rule, fmt.Sprintf("%s · fresh %s read #%d", fnName(fn), prod, cnt[site.callee]), w.instrPos(site.call), inter.Empty(),
				fmt.Sprintf("octet already consumed ∈ %s; first octets of a %s value = %s; overlap %s", S.HexString(), prod, first.HexString(), inter.HexString()))
		}
	}
	// floor over the grammar, not over call sites (two readers may share one
	// length helper): every header octet after which the grammar continues with
	// a type or an int must be the consumed octet of some checked fresh read
	hdr := specTags("map-typed", "").Union(specTags("ref", "")).Union(specTags("list-typed", "")).Union(specTags("list-untyped", "fixed"))
	got := 0
	if c := covered.Intersect(hdr); !c.Empty() && c.Card().IsInt64() {
		got = int(c.Card().Int64())
	}
	r.floor(rule+" (header octets followed by a type or an int that a checked read covers)", got, int(hdr.Card().Int64()))
}

// ruleHeaderSiblings: after 'M' (both readers) and after a typed-list tag the
// first read is the type reader.
func (w *World) ruleHeaderSiblings(r *Report, rule string) {
	// the readers of the grammar; a Decoder method that is none of them but leads to
	// one (`mType, err := d.registeredMapType()`: the type read and the look-up of
	// the registered Go type moved out together) is looked into: the first read is
	// the first read of its own entry block
	known := map[*ssa.Function]bool{}
	for fn := range w.readerBoundaries() {
		known[fn] = true
	}
	for _, n := range []string{"(*Decoder).readType", "(*Decoder).ReadData", "(*Decoder).readTag"} {
		if fn := w.fn(n); fn != nil {
			known[fn] = true
		}
	}
	leadsToReader := w.canReach(known)
	var firstReadD func(fn *ssa.Function, blocks []*ssa.BasicBlock, depth int) (string, string)
	firstRead := func(fn *ssa.Function, blocks []*ssa.BasicBlock) (string, string) {
		return firstReadD(fn, blocks, 0)
	}
	firstReadD = func(fn *ssa.Function, blocks []*ssa.BasicBlock, depth int) (string, string) {
		for _, b := range blocks {
			for _, in := range b.Instrs {
				c, ok := in.(*ssa.Call)
				if !ok {
					continue
				}
				sc := c.Call.StaticCallee()
				if sc == nil || !w.inPkg(sc) || w.isTagPredicate(sc) {
					continue
				}
				if sc.Signature.Recv() != nil && namedIs(sc.Signature.Recv().Type(), hessianPath, "Decoder") {
					if !known[sc] && leadsToReader[sc] && sc.Blocks != nil && depth < 3 && sc != fn {
						if got, pos := firstReadD(sc, sc.Blocks[:1], depth+1); got != "" {
							return got, pos
						}
					}
					return fnName(sc), w.instrPos(c)
				}
			}
		}
		return "", "-"
	}
	for _, name := range []string{"(*Decoder).readTypedMap", "(*Decoder).readTypedList"} {
		fn := w.fn(name)
		if fn == nil {
			r.undecided(rule, name, "-", "anchor not found")
			continue
		}
		got, pos := firstRead(fn, fn.Blocks[:1])
		r.add(rule, name+" · first read after the header tag", pos, got == "(*Decoder).readType", "first stream read is "+got)
	}
	// the 'M' arm of the map-field reader: on the path explorer (rules_maphdr_px.go)
	w.ruleMapFieldTypeRead(r, rule)
}

var _ = token.ADD
