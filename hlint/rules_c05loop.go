package main

// C05.R1/R2: the field loop of the object reader wherever it sits — in the
// reader itself or in code extracted from it (`readObjectFields(typ, st,
// cls.FieldName)`) — and whatever spelling its bound test has (`i < len(names)`,
// `for i, n := 0, len(names); i != n; i++`).

import (
	"go/token"
	"go/types"
	"sort"

	"golang.org/x/tools/go/ssa"
)

// fieldLoopTest: cond is the bound test of a loop with header h over a counter
// that indexes the current iteration: `i < len(X)` (index loop, or the range
// form with i+1), or `i != len(X)` for a counter that starts at 0 and moves up
// by one (len(X) >= 0, so it stops exactly where `<` would).  Returns the value
// indexing the current iteration and the measured value X.
func fieldLoopTest(cond ssa.Value, h *ssa.BasicBlock) (ssa.Value, ssa.Value) {
	bo, ok := cond.(*ssa.BinOp)
	if !ok {
		return nil, nil
	}
	lenArg := func(v ssa.Value) ssa.Value {
		if c, ok := v.(*ssa.Call); ok {
			if b, isB := c.Call.Value.(*ssa.Builtin); isB && b.Name() == "len" && len(c.Call.Args) == 1 {
				return c.Call.Args[0]
			}
		}
		return nil
	}
	switch bo.Op {
	case token.LSS:
		if ix := iterationIndex(cond, h); ix != nil {
			if x := lenArg(bo.Y); x != nil {
				return ix, x
			}
		}
	case token.NEQ:
		cnt, bound := bo.X, bo.Y
		if lenArg(bound) == nil {
			cnt, bound = bo.Y, bo.X
		}
		x := lenArg(bound)
		phi, isPhi := cnt.(*ssa.Phi)
		if x == nil || !isPhi || phi.Block() != h || len(phi.Edges) != 2 {
			return nil, nil
		}
		if step, isCounter := counterStep(phi); !isCounter || step != 1 {
			return nil, nil
		}
		zero := false
		for _, e := range phi.Edges {
			if c, isC := e.(*ssa.Const); isC && c.Value != nil && c.Int64() == 0 {
				zero = true
			}
		}
		if zero {
			return phi, x
		}
	}
	return nil, nil
}

// isDefinitionNames: v is the list of field names of a class definition (a
// []string field of a package struct value).
func (w *World) isDefinitionNames(v ssa.Value) bool {
	sl, ok := v.Type().Underlying().(*types.Slice)
	if !ok || typeStr(sl.Elem()) != "string" {
		return false
	}
	named := func(t types.Type) bool {
		if pt, isP := t.Underlying().(*types.Pointer); isP {
			t = pt.Elem()
		}
		n, isN := t.(*types.Named)
		if !isN || n.Obj().Pkg() != w.TPkg {
			return false
		}
		_, isS := n.Underlying().(*types.Struct)
		return isS
	}
	switch x := v.(type) {
	case *ssa.Field:
		return named(x.X.Type())
	case *ssa.UnOp:
		if fa, isFA := x.X.(*ssa.FieldAddr); isFA && x.Op == token.MUL {
			return named(fa.X.Type())
		}
	}
	return false
}

// fieldLoopOf: the loop bounded by the number of definition field names, in ro
// or in a function extracted from it (scope = privateHelpers(ro)); in a helper
// the measured list is a parameter that every call site feeds with the
// definition's names.
func (w *World) fieldLoopOf(ro *ssa.Function, scope map[*ssa.Function][]*ssa.Call) (*ssa.Function, *loopInfo, ssa.Value) {
	var fns []*ssa.Function
	for fn := range scope {
		fns = append(fns, fn)
	}
	sort.Slice(fns, func(i, j int) bool { return fnName(fns[i]) < fnName(fns[j]) })
	var lfn *ssa.Function
	var loop *loopInfo
	var counter ssa.Value
	for _, fn := range fns {
		if fn.Blocks == nil {
			continue
		}
		for _, lp := range naturalLoops(fn) {
			for b := range lp.body {
				iff, ok := b.Instrs[len(b.Instrs)-1].(*ssa.If)
				if !ok {
					continue
				}
				ix, x := fieldLoopTest(iff.Cond, lp.header)
				if ix == nil {
					continue
				}
				if fn != ro {
					vals, known := throughParams(x, fn, scope, 0)
					if !known || len(vals) == 0 {
						continue
					}
					all := true
					for _, v := range vals {
						if !w.isDefinitionNames(v) {
							all = false
						}
					}
					if !all {
						continue
					}
				}
				if lfn == nil || fn == ro {
					lfn, loop, counter = fn, lp, ix
				}
			}
		}
	}
	return lfn, loop, counter
}

// cellValueAt: ld loads a local variable's cell (a variable captured by a
// closure lives in one); the value is the one stored earlier in the same block
// when nothing between the store and the load can write the cell (no store to
// it, no call at all).  Otherwise ld itself.
func cellValueAt(v ssa.Value) ssa.Value {
	ld, ok := v.(*ssa.UnOp)
	if !ok || ld.Op != token.MUL {
		return v
	}
	al, ok := ld.X.(*ssa.Alloc)
	if !ok || ld.Block() == nil {
		return v
	}
	var last ssa.Value
	for _, in := range ld.Block().Instrs {
		if in == ssa.Instruction(ld) {
			break
		}
		switch x := in.(type) {
		case *ssa.Store:
			if x.Addr == ssa.Value(al) {
				last = x.Val
			}
		case *ssa.Call, *ssa.Go, *ssa.Defer:
			last = nil
		}
	}
	if last != nil {
		return last
	}
	return v
}
