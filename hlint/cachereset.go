package main

import "golang.org/x/tools/go/ssa"

// resetProgramCaches drops the package-level memo tables that are keyed by
// objects of one loaded program (functions, allocs, globals, worlds).  The
// thorough tier analyses many programs in one process (seven configurations,
// then one patched copy per seeded change): without this every program ever
// loaded stays reachable and the process grows to tens of gigabytes.
func resetProgramCaches() {
	constTabCache = map[*ssa.Global]*constTab{}
	constTabBusy = map[*ssa.Global]bool{}
	ctxRets = map[*World]*ctxRetState{}
	termFlagMemo = map[*World]map[termFlagKey]int{}
	privateArrayCache = map[*ssa.Alloc]bool{}
	localStructArrayCache = map[*ssa.Alloc]int{}
	purelyLocalCache = map[*ssa.Alloc]bool{}
	localTabCache = map[*ssa.Alloc]bool{}
	allocLeakCache = map[*ssa.Alloc]bool{}
	roleAlias = map[*ssa.Function]string{}
	regPathsCache = map[*World]*regPathsInfo{}
	freshPhiBusy = map[*ssa.Phi]bool{}
	pxGuardedCache = map[*ssa.Function]map[*ssa.Call]bool{}
	finMemo = map[*ssa.Function]*finSummary{}
	finBusy = map[*ssa.Function]bool{}
}
