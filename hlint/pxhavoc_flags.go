package main

// Summarised loops: FLAGS set together with a remembered counter.
//
//	for i := len(t) - 1; i >= 0; i-- { if t[i].name != n { continue }; index, found = i, true }
//	return index, found
//
// `index` remembers the counter (pxhavoc2.go loopRememberers); `found` is a
// header φ that is only carried (never read inside the loop) and only ever
// receives itself or a CONSTANT.  Made fresh on entry it would be unrelated to
// `index`: a path "found, but index never assigned" that no execution has.  Like
// the counter-rememberers it keeps its initial value on the first entry ("never
// assigned in any iteration") and, when the generic iteration assigned it, the
// header is entered once more with the constant it received — in the same
// iteration, hence together with the counter `index` received.

import (
	"golang.org/x/tools/go/ssa"
)

var flagRememberersCache = map[*loopInfo]map[*ssa.Phi]bool{}

// loopFlagRememberers: header φ-nodes of lp that are not counters, are not read
// inside the loop (only carried through φ-nodes) and whose back-edge values are,
// through those φ-nodes, only themselves or constants (at least one constant).
func loopFlagRememberers(lp *loopInfo) map[*ssa.Phi]bool {
	if m, ok := flagRememberersCache[lp]; ok {
		return m
	}
	out := map[*ssa.Phi]bool{}
	flagRememberersCache[lp] = out
	for _, in := range lp.header.Instrs {
		phi, ok := in.(*ssa.Phi)
		if !ok {
			break
		}
		if _, isC := counterStep(phi); isC {
			continue
		}
		chain := map[ssa.Value]bool{phi: true}
		carried := true
		var uses func(v ssa.Value)
		uses = func(v ssa.Value) {
			if v.Referrers() == nil {
				return
			}
			for _, ref := range *v.Referrers() {
				if ref.Block() == nil || !lp.body[ref.Block()] {
					continue
				}
				if _, isDbg := ref.(*ssa.DebugRef); isDbg {
					continue
				}
				p2, isPhi := ref.(*ssa.Phi)
				if !isPhi {
					carried = false
					return
				}
				if !chain[p2] {
					chain[p2] = true
					uses(p2)
				}
			}
		}
		uses(phi)
		if !carried {
			continue
		}
		seen := map[ssa.Value]bool{}
		hasConst := false
		var leaf func(v ssa.Value) bool
		leaf = func(v ssa.Value) bool {
			if v == ssa.Value(phi) || seen[v] {
				return true
			}
			seen[v] = true
			switch x := v.(type) {
			case *ssa.Const:
				hasConst = true
				return true
			case *ssa.Phi:
				if !lp.body[x.Block()] || x.Block() == lp.header {
					return false
				}
				for _, e := range x.Edges {
					if !leaf(e) {
						return false
					}
				}
				return true
			}
			return false
		}
		good := true
		for i, pred := range lp.header.Preds {
			if !lp.body[pred] || i >= len(phi.Edges) {
				continue
			}
			if !leaf(phi.Edges[i]) {
				good = false
			}
		}
		if good && hasConst {
			out[phi] = true
		}
	}
	return out
}

// rememberedFlags: the flag φ-nodes that received, on the back edge pi of the
// generic iteration just explored, a constant different from what they held.
func (p *PX) rememberedFlags(fr *pxFrame, lp *loopInfo, pi int, st *pxState, out map[string]bool) {
	flags := loopFlagRememberers(lp)
	if len(flags) == 0 {
		return
	}
	for _, in := range lp.header.Instrs {
		phi, ok := in.(*ssa.Phi)
		if !ok {
			break
		}
		if !flags[phi] || pi >= len(phi.Edges) {
			continue
		}
		t := p.term(phi.Edges[pi], fr, st)
		if cur, ok := st.vals[p.reg(fr, phi)]; ok && cur.key == t.key {
			continue // unchanged in this iteration
		}
		if t.K == TConst || t.K == TBoolConst {
			out[p.reg(fr, phi)] = true
		}
	}
}
