package main

// px: struct variables nobody else can point to.
//
// The field cells of a local struct variable are guarded by the version of the
// field's TYPE-level id (pxmem.go): any store to that field of any object — and
// any whole-struct store to an object of the type — hides them, because the
// explorer does not know which pointers alias.  For a variable whose address
// is never taken for anything but its own field accesses, loads and stores
// (`chosen := widest … chosen = f … chosen.following`, the spill of a by-value
// struct parameter or receiver) there is no other pointer: a store to it
// changes no other object, and no store through a pointer changes it.  Such
// stores do not advance the versions, and its cells are read whatever the
// version — so the copy `f` spilled by the value-receiver method `f.lead(v)`
// no longer hides the fields of the caller's `chosen`.

import (
	"go/token"

	"golang.org/x/tools/go/ssa"
)

var purelyLocalCache = map[*ssa.Alloc]bool{}

// purelyLocal: every use of the Alloc is a load, a store TO it, or a field
// address that is itself only loaded from / stored to.
func (w *World) purelyLocal(al *ssa.Alloc) bool {
	if v, ok := purelyLocalCache[al]; ok {
		return v
	}
	ok := func() bool {
		refs := al.Referrers()
		if refs == nil || al.Heap {
			return false
		}
		for _, r := range *refs {
			switch x := r.(type) {
			case *ssa.DebugRef:
			case *ssa.UnOp:
				if x.Op != token.MUL {
					return false
				}
			case *ssa.Store:
				if x.Val == ssa.Value(al) || x.Addr != ssa.Value(al) {
					return false
				}
			case *ssa.FieldAddr:
				if w.partAddrLeaks(x, 0) {
					return false
				}
			default:
				return false
			}
		}
		return true
	}()
	purelyLocalCache[al] = ok
	return ok
}

// purelyLocalAddr: addr is such a variable or the address of one of its fields.
func (w *World) purelyLocalAddr(addr ssa.Value) bool {
	switch x := addr.(type) {
	case *ssa.Alloc:
		return w.purelyLocal(x)
	case *ssa.FieldAddr:
		return w.purelyLocalAddr(x.X)
	}
	return false
}
