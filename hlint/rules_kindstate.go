package main

// C03.R11 / C14.R9 — no reflect accessor is applied to a Value whose kind can
// never be the kind the accessor requires.
//
// package reflect panics when a kind-specific accessor meets another kind
// (FieldByName on a pointer, SetMapIndex on a struct …).  Where the kind of a
// Value is known from how it was made, the set of kinds it can have is
// computed by a small forward analysis per function:
//   reflect.New(t) → {Ptr}; reflect.MakeMap → {Map}; reflect.MakeSlice →
//   {Slice}; reflect.Zero / ValueOf / parameters / fields → unknown;
//   a packer (package function returning reflect.New(v.Type()) after storing v
//   into it) → {Ptr} pointing at its argument; x.Elem() → the kinds of y when
//   x is a packer's result for y, unknown otherwise; φ → union.
// Obligation per kind-specific accessor call whose receiver's kinds are known:
// the set contains a kind the accessor accepts.  (A set that merely also
// contains wrong kinds is a matter of path conditions and is not judged here.)
// The typed-map reader bound a map to a struct through
// `PackPtr(reflect.New(T)).Elem()` — a pointer — and called FieldByName on it:
// every typed map whose type is registered as a struct failed to decode.

import (
	"fmt"
	"sort"
	"strings"

	"golang.org/x/tools/go/ssa"
)

var accessorKinds = map[string][]string{
	"Field": {"Struct"}, "FieldByName": {"Struct"}, "NumField": {"Struct"}, "FieldByIndex": {"Struct"},
	"MapIndex": {"Map"}, "SetMapIndex": {"Map"}, "MapKeys": {"Map"}, "MapRange": {"Map"},
	"Index": {"Slice", "Array", "String"}, "SetLen": {"Slice"}, "Slice": {"Slice", "Array", "String"},
	"Elem": {"Ptr", "Interface"}, "IsNil": {"Ptr", "Interface", "Map", "Slice", "Chan", "Func", "UnsafePointer"},
}

func (w *World) packerFns() map[*ssa.Function]bool {
	out := map[*ssa.Function]bool{}
	for _, fn := range w.SrcFuncs() {
		if fn.Parent() != nil || len(fn.Params) != 1 || typeStr(fn.Params[0].Type()) != "reflect.Value" || fn.Signature.Results().Len() != 1 || typeStr(fn.Signature.Results().At(0).Type()) != "reflect.Value" {
			continue
		}
		// every return is a reflect.New result, and the parameter is Set into its Elem
		allNew, sets := true, false
		for _, b := range fn.Blocks {
			for _, in := range b.Instrs {
				switch x := in.(type) {
				case *ssa.Return:
					c, ok := x.Results[0].(*ssa.Call)
					if !ok || c.Call.StaticCallee() == nil || qualifiedFnName(c.Call.StaticCallee()) != "reflect.New" {
						allNew = false
					}
				case *ssa.Call:
					if calleeName(&x.Call) == "Set" && len(x.Call.Args) == 2 && x.Call.Args[1] == ssa.Value(fn.Params[0]) {
						sets = true
					}
				}
			}
		}
		if allNew && sets {
			out[fn] = true
		}
	}
	return out
}

func (w *World) ruleAccessorKinds(r *Report, rule string, want func(fn *ssa.Function) bool) {
	packers := w.packerFns()
	n, bad := 0, 0
	for _, fn := range w.SrcFuncs() {
		if want != nil && !want(fn) {
			continue
		}
		// kinds: nil = unknown, else set
		kinds := map[ssa.Value]map[string]bool{}
		pointee := map[ssa.Value]ssa.Value{} // packer result -> packed value
		known := map[ssa.Value]bool{}
		var order []ssa.Value
		for _, b := range fn.Blocks {
			for _, in := range b.Instrs {
				if v, ok := in.(ssa.Value); ok && typeStr(v.Type()) == "reflect.Value" {
					order = append(order, v)
				}
			}
		}
		for iter := 0; iter < 6; iter++ {
			for _, v := range order {
				switch x := v.(type) {
				case *ssa.Call:
					sc := x.Call.StaticCallee()
					if sc == nil {
						continue
					}
					switch qn := qualifiedFnName(sc); {
					case qn == "reflect.New":
						kinds[v], known[v] = map[string]bool{"Ptr": true}, true
					case qn == "reflect.MakeMap" || qn == "reflect.MakeMapWithSize":
						kinds[v], known[v] = map[string]bool{"Map": true}, true
					case qn == "reflect.MakeSlice":
						kinds[v], known[v] = map[string]bool{"Slice": true}, true
					case packers[sc] && len(x.Call.Args) == 1:
						kinds[v], known[v] = map[string]bool{"Ptr": true}, true
						pointee[v] = x.Call.Args[0]
					case qn == "(reflect.Value).Elem" && len(x.Call.Args) == 1:
						if y, ok := pointee[x.Call.Args[0]]; ok && known[y] {
							kinds[v], known[v] = kinds[y], true
						}
					}
				case *ssa.Phi:
					all := true
					u := map[string]bool{}
					for _, e := range x.Edges {
						if !known[e] {
							all = false
							break
						}
						for k := range kinds[e] {
							u[k] = true
						}
					}
					if all && len(x.Edges) > 0 {
						kinds[v], known[v] = u, true
					}
				}
			}
		}
		cnt := 0
		for _, b := range fn.Blocks {
			for _, in := range b.Instrs {
				c, ok := in.(*ssa.Call)
				if !ok {
					continue
				}
				sc := c.Call.StaticCallee()
				if sc == nil || !strings.HasPrefix(qualifiedFnName(sc), "(reflect.Value).") || len(c.Call.Args) == 0 {
					continue
				}
				req, ok := accessorKinds[sc.Name()]
				if !ok {
					continue
				}
				recv := c.Call.Args[0]
				if !known[recv] {
					continue
				}
				n++
				cnt++
				okk := false
				for _, k := range req {
					if kinds[recv][k] {
						okk = true
					}
				}
				var have []string
				for k := range kinds[recv] {
					have = append(have, k)
				}
				sort.Strings(have)
				if !okk {
					bad++
				}
				o := r.add(rule, fmt.Sprintf("%s · %s #%d", fnName(fn), sc.Name(), cnt), w.instrPos(c), okk, fmt.Sprintf("receiver made as %v; %s requires %v", have, sc.Name(), req)+map[bool]string{true: "", false: ": the call panics whenever it is reached"}[okk])
				o.Trivial = okk
			}
		}
	}
	if n == 0 {
		o := r.add(rule, "census", "-", true, "no kind-specific accessor on a Value of known make")
		o.Trivial = true
	}
	_ = bad
}
