package main

// Summarised loops: variables that remember the counter, relational bounds of
// counters that count down.

import (
	"go/token"
	"math/big"
	"strings"

	"golang.org/x/tools/go/ssa"
)

// rememberedCounters: the header φ-nodes of the summarised loop lp that are not
// counters themselves and that receive, on the back edge from `from`, the
// (fresh symbol of the) counter of the generic iteration just explored, plus or
// minus a constant.  Sets p.rememberedNow for the re-entry of the header.
func (p *PX) rememberedCounters(fr *pxFrame, lp *loopInfo, from *ssa.BasicBlock, st *pxState) map[string]bool {
	pi := -1
	for i, q := range lp.header.Preds {
		if q == from {
			pi = i
		}
	}
	if pi < 0 {
		return nil
	}
	counters := map[*ssa.Phi]bool{}
	for _, in := range lp.header.Instrs {
		phi, ok := in.(*ssa.Phi)
		if !ok {
			break
		}
		if _, isC := counterStep(phi); isC {
			counters[phi] = true
		}
	}
	out := map[string]bool{}
	for _, in := range lp.header.Instrs {
		phi, ok := in.(*ssa.Phi)
		if !ok {
			break
		}
		if counters[phi] || pi >= len(phi.Edges) || !loopRememberers(lp)[phi] {
			continue
		}
		t := p.term(phi.Edges[pi], fr, st)
		if cur, ok := st.vals[p.reg(fr, phi)]; ok && cur.key == t.key {
			continue // unchanged in this iteration
		}
		for t.K == TBin && (t.Op == token.ADD || t.Op == token.SUB) && t.B != nil && t.B.K == TConst {
			t = t.A
		}
		if t.K != TLeaf || !strings.HasPrefix(t.key, "<hv") {
			continue
		}
		if cphi, ok := t.V.(*ssa.Phi); ok && counters[cphi] && cphi.Block() == lp.header {
			out[p.reg(fr, phi)] = true
		}
	}
	// flags set in the same iteration (pxhavoc_flags.go)
	p.rememberedFlags(fr, lp, pi, st, out)
	if len(out) > 0 {
		p.rememberedNow = out
	}
	return out
}

// downCounterBounds: a counter that only counts down from init = A - c (c ≥ 1)
// stays below A, and below everything A is known to be below; a counter that is
// made fresh again from `old - c` inherits what was known above `old`.
func (p *PX) downCounterBounds(fresh, init *Term, st *pxState) {
	if init == nil {
		return
	}
	set1 := func(a, b string) { st.env["("+a+" < "+b+")"] = single(1) }
	if init.K == TBin && init.Op == token.SUB && init.B != nil && init.B.K == TConst && init.B.C.Sign() > 0 {
		a := init.A
		// A - c must not wrap around
		as, _ := p.f.Eval(a, st.env)
		top, ok := typeRange(p.w, init.T)
		if as == nil || as.Empty() || !ok || new(big.Int).Sub(as.Min(), init.B.C).Cmp(top.Min()) < 0 {
			return
		}
		set1(fresh.key, a.key)
		pre := "(" + a.key + " < "
		for k, v := range st.env {
			if strings.HasPrefix(k, pre) && v.Equal(single(1)) {
				set1(fresh.key, strings.TrimSuffix(strings.TrimPrefix(k, pre), ")"))
			}
		}
	}
}

var rememberersCache = map[*loopInfo]map[*ssa.Phi]bool{}

// loopRememberers: header φ-nodes of lp that are not counters, are not read
// inside the loop (only carried through φ-nodes), and whose back-edge values
// are, through those φ-nodes, only themselves or a counter of the loop ± a
// constant: `found := none; for i … { if match(i) { found = i } }`.
func loopRememberers(lp *loopInfo) map[*ssa.Phi]bool {
	if m, ok := rememberersCache[lp]; ok {
		return m
	}
	out := map[*ssa.Phi]bool{}
	rememberersCache[lp] = out
	counters := map[*ssa.Phi]bool{}
	var heads []*ssa.Phi
	for _, in := range lp.header.Instrs {
		phi, ok := in.(*ssa.Phi)
		if !ok {
			break
		}
		heads = append(heads, phi)
		if _, isC := counterStep(phi); isC {
			counters[phi] = true
		}
	}
	for _, phi := range heads {
		if counters[phi] {
			continue
		}
		// carried only: every use inside the loop is a φ-node of the carry chain
		chain := map[ssa.Value]bool{phi: true}
		ok := true
		var uses func(v ssa.Value)
		uses = func(v ssa.Value) {
			if v.Referrers() == nil {
				return
			}
			for _, ref := range *v.Referrers() {
				if ref.Block() == nil || !lp.body[ref.Block()] {
					continue
				}
				if _, isDbg := ref.(*ssa.DebugRef); isDbg {
					continue
				}
				p2, isPhi := ref.(*ssa.Phi)
				if !isPhi {
					ok = false
					return
				}
				if !chain[p2] {
					chain[p2] = true
					uses(p2)
				}
			}
		}
		uses(phi)
		if !ok {
			continue
		}
		// leaves of the back-edge values
		seen := map[ssa.Value]bool{}
		remembers := false
		var leaf func(v ssa.Value) bool
		leaf = func(v ssa.Value) bool {
			if v == ssa.Value(phi) {
				return true
			}
			if seen[v] {
				return true
			}
			seen[v] = true
			switch x := v.(type) {
			case *ssa.Phi:
				if counters[x] && x.Block() == lp.header {
					remembers = true
					return true
				}
				if !lp.body[x.Block()] || x.Block() == lp.header {
					return false
				}
				for _, e := range x.Edges {
					if !leaf(e) {
						return false
					}
				}
				return true
			case *ssa.BinOp:
				if x.Op != token.ADD && x.Op != token.SUB {
					return false
				}
				if _, isC := x.Y.(*ssa.Const); !isC {
					return false
				}
				cp, isPhi := x.X.(*ssa.Phi)
				if isPhi && counters[cp] && cp.Block() == lp.header {
					remembers = true
					return true
				}
				return false
			}
			return false
		}
		good := true
		for i, pred := range lp.header.Preds {
			if !lp.body[pred] || i >= len(phi.Edges) {
				continue
			}
			if !leaf(phi.Edges[i]) {
				good = false
			}
		}
		if good && remembers {
			out[phi] = true
		}
	}
	return out
}
