package main

// ISet: finite unions of closed integer intervals with arbitrary-precision
// bounds.  This is the single numeric domain of the checker: a "TagSet" is an
// ISet inside [0,255]; value ranges of int32/int64 symbols are ISets inside the
// type's range.  All operations are exact on the set level except where
// noted ("hull").

import (
	"fmt"
	"math/big"
	"sort"
	"strings"
)

type IV struct{ Lo, Hi *big.Int }

type ISet []IV // sorted, pairwise disjoint and non-adjacent

func bi(x int64) *big.Int { return big.NewInt(x) }

var (
	one = bi(1)
)

func mkSet(lo, hi int64) ISet { return ISet{{bi(lo), bi(hi)}} }

func mkSetB(lo, hi *big.Int) ISet {
	if lo.Cmp(hi) > 0 {
		return nil
	}
	return ISet{{new(big.Int).Set(lo), new(big.Int).Set(hi)}}
}

func single(x int64) ISet { return mkSet(x, x) }

func (s ISet) Empty() bool { return len(s) == 0 }

func (s ISet) norm() ISet {
	if len(s) == 0 {
		return nil
	}
	c := make(ISet, 0, len(s))
	for _, iv := range s {
		if iv.Lo.Cmp(iv.Hi) <= 0 {
			c = append(c, iv)
		}
	}
	sort.Slice(c, func(i, j int) bool { return c[i].Lo.Cmp(c[j].Lo) < 0 })
	var out ISet
	for _, iv := range c {
		if n := len(out); n > 0 {
			lim := new(big.Int).Add(out[n-1].Hi, one)
			if iv.Lo.Cmp(lim) <= 0 {
				if iv.Hi.Cmp(out[n-1].Hi) > 0 {
					out[n-1].Hi = iv.Hi
				}
				continue
			}
		}
		out = append(out, IV{iv.Lo, iv.Hi})
	}
	return out
}

func (s ISet) Union(t ISet) ISet {
	c := make(ISet, 0, len(s)+len(t))
	c = append(c, s...)
	c = append(c, t...)
	return c.norm()
}

func (s ISet) Intersect(t ISet) ISet {
	var out ISet
	for _, a := range s {
		for _, b := range t {
			lo, hi := a.Lo, a.Hi
			if b.Lo.Cmp(lo) > 0 {
				lo = b.Lo
			}
			if b.Hi.Cmp(hi) < 0 {
				hi = b.Hi
			}
			if lo.Cmp(hi) <= 0 {
				out = append(out, IV{lo, hi})
			}
		}
	}
	return out.norm()
}

// Minus returns s \ t.
func (s ISet) Minus(t ISet) ISet {
	cur := s
	for _, b := range t {
		var nxt ISet
		for _, a := range cur {
			if b.Hi.Cmp(a.Lo) < 0 || b.Lo.Cmp(a.Hi) > 0 {
				nxt = append(nxt, a)
				continue
			}
			if b.Lo.Cmp(a.Lo) > 0 {
				nxt = append(nxt, IV{a.Lo, new(big.Int).Sub(b.Lo, one)})
			}
			if b.Hi.Cmp(a.Hi) < 0 {
				nxt = append(nxt, IV{new(big.Int).Add(b.Hi, one), a.Hi})
			}
		}
		cur = nxt
	}
	return cur.norm()
}

func (s ISet) Equal(t ISet) bool {
	s, t = s.norm(), t.norm()
	if len(s) != len(t) {
		return false
	}
	for i := range s {
		if s[i].Lo.Cmp(t[i].Lo) != 0 || s[i].Hi.Cmp(t[i].Hi) != 0 {
			return false
		}
	}
	return true
}

func (s ISet) SubsetOf(t ISet) bool { return s.Minus(t).Empty() }

func (s ISet) Contains(x int64) bool {
	b := bi(x)
	for _, iv := range s {
		if iv.Lo.Cmp(b) <= 0 && b.Cmp(iv.Hi) <= 0 {
			return true
		}
	}
	return false
}

func (s ISet) Min() *big.Int { return s[0].Lo }
func (s ISet) Max() *big.Int { return s[len(s)-1].Hi }

func (s ISet) Hull() ISet {
	if s.Empty() {
		return nil
	}
	return ISet{{s.Min(), s.Max()}}
}

// Card returns the number of elements (nil if empty ⇒ 0).
func (s ISet) Card() *big.Int {
	n := new(big.Int)
	for _, iv := range s {
		d := new(big.Int).Sub(iv.Hi, iv.Lo)
		d.Add(d, one)
		n.Add(n, d)
	}
	return n
}

func fmtBig(x *big.Int) string {
	if x.IsInt64() {
		v := x.Int64()
		switch {
		case v == -1<<63:
			return "minInt64"
		case v == 1<<63-1:
			return "maxInt64"
		case v == -1<<31:
			return "minInt32"
		case v == 1<<31-1:
			return "maxInt32"
		}
	}
	return x.String()
}

func (s ISet) String() string {
	if s.Empty() {
		return "{}"
	}
	var parts []string
	for _, iv := range s {
		if iv.Lo.Cmp(iv.Hi) == 0 {
			parts = append(parts, fmtBig(iv.Lo))
		} else {
			parts = append(parts, fmt.Sprintf("[%s,%s]", fmtBig(iv.Lo), fmtBig(iv.Hi)))
		}
	}
	return strings.Join(parts, "∪")
}

// HexString renders a set inside [0,255] in hexadecimal (tag sets).
func (s ISet) HexString() string {
	if s.Empty() {
		return "{}"
	}
	var parts []string
	for _, iv := range s {
		if iv.Lo.Cmp(iv.Hi) == 0 {
			parts = append(parts, fmt.Sprintf("x%02x", iv.Lo.Int64()))
		} else {
			parts = append(parts, fmt.Sprintf("x%02x-x%02x", iv.Lo.Int64(), iv.Hi.Int64()))
		}
	}
	return strings.Join(parts, ",")
}

// mapMono applies a monotone non-decreasing function to every interval (the
// result is the hull of the image per interval; exact for the shifts,
// additions and divisions by constants used in the codec, whose images of an
// integer interval are contiguous).
func (s ISet) mapMono(f func(*big.Int) *big.Int) ISet {
	var out ISet
	for _, iv := range s {
		out = append(out, IV{f(iv.Lo), f(iv.Hi)})
	}
	return out.norm()
}

// Elems enumerates the elements if the set is small (≤ limit); ok=false otherwise.
func (s ISet) Elems(limit int) ([]int64, bool) {
	if s.Card().Cmp(bi(int64(limit))) > 0 {
		return nil, false
	}
	var out []int64
	for _, iv := range s {
		for x := iv.Lo.Int64(); x <= iv.Hi.Int64(); x++ {
			out = append(out, x)
		}
	}
	return out, true
}

// wrap reduces the set modulo 2^bits into [lo, lo+2^bits-1] (integer
// conversion to a narrower or differently signed type).  Exact.
func (s ISet) wrap(bits uint, signed bool) (ISet, bool) {
	mod := new(big.Int).Lsh(one, bits)
	var lo *big.Int
	if signed {
		lo = new(big.Int).Neg(new(big.Int).Lsh(one, bits-1))
	} else {
		lo = new(big.Int)
	}
	hi := new(big.Int).Add(lo, mod)
	hi.Sub(hi, one)
	full := ISet{{lo, hi}}
	if s.SubsetOf(full) {
		return s, false // value preserving
	}
	var out ISet
	for _, iv := range s {
		w := new(big.Int).Sub(iv.Hi, iv.Lo)
		w.Add(w, one)
		if w.Cmp(mod) >= 0 {
			return full, true
		}
		// shift iv.Lo into range
		off := new(big.Int).Sub(iv.Lo, lo)
		m := new(big.Int).Mod(off, mod) // Euclidean: 0 <= m < mod
		nlo := new(big.Int).Add(lo, m)
		nhi := new(big.Int).Add(nlo, new(big.Int).Sub(iv.Hi, iv.Lo))
		if nhi.Cmp(hi) <= 0 {
			out = append(out, IV{nlo, nhi})
		} else {
			out = append(out, IV{nlo, hi})
			out = append(out, IV{lo, new(big.Int).Sub(nhi, mod)})
		}
	}
	return out.norm(), true
}
