package main

import (
	"fmt"
	"os"

	"golang.org/x/tools/go/packages"
	"golang.org/x/tools/go/ssa"
	"golang.org/x/tools/go/ssa/ssautil"
	"golang.org/x/tools/go/callgraph/vta"
	"golang.org/x/tools/go/callgraph/cha"
)

func main() {
	cfg := &packages.Config{Mode: packages.LoadAllSyntax, Dir: "/repo"}
	pkgs, err := packages.Load(cfg, "./...")
	if err != nil { panic(err) }
	prog, spkgs := ssautil.AllPackages(pkgs, ssa.InstantiateGenerics)
	prog.Build()
	cg := vta.CallGraph(ssautil.AllFunctions(prog), cha.CallGraph(prog))
	fmt.Println(len(pkgs), len(spkgs), len(cg.Nodes))
	_ = os.Stdout
}
