package main

import (
	"encoding/json"
	"flag"
	"fmt"
	"os"
	"path/filepath"
	"runtime/debug"
	"sort"
	"strconv"
	"strings"
	"time"
)

// A rule set decides the claimed clauses of one property on one World.
type ruleFn func(w *World, r *Report)

var registry = map[string]ruleFn{}
var explain = map[string][2]string{} // property -> {explanation, rule text}
var assumptions = map[string][]string{}

func register(prop string, fn ruleFn, explanation, ruleText string, assume ...string) {
	registry[prop] = fn
	explain[prop] = [2]string{explanation, ruleText}
	assumptions[prop] = assume
}

// include runs the rule set of another property as shared clauses of the
// current one: every obligation of `from` is a necessary condition of the
// including property too (stated in its explanation); obligations are
// re-labelled so that keys stay unique per property.
// including: properties whose rules are being evaluated as shared clauses (cycle guard).
var including = map[string]bool{}

func include(w *World, r *Report, from string) {
	fn, ok := registry[from]
	if !ok {
		r.undecided("shared", "rules of "+from, "-", "not registered")
		return
	}
	if note := " Shared clauses: every obligation of " + from + " is also a necessary condition of this property and is evaluated here under the label 'shared " + from + ".…'."; !strings.Contains(r.Explain, note) {
		r.Explain += note
	}
	if including[from] {
		return // already being evaluated further out: a clause shared both ways is reported once
	}
	including[from] = true
	defer delete(including, from)
	r2 := newReport(r.Prop)
	r2.cfg = r.cfg
	fn(w, r2)
	for _, o := range r2.Obls {
		o.Rule = "shared " + o.Rule
		o.Key = "shared " + o.Key
		r.Obls = append(r.Obls, o)
	}
	for _, fc := range r2.Floors {
		r.floor("shared "+fc.Name, fc.Got, fc.Min)
	}
	for f := range r2.Funcs {
		r.Funcs[f] = true
	}
	r.CallSites += r2.CallSites
}

// includeIf: as include, restricted to the obligations pred selects (the
// floors of the source property are not carried over: the selection states its own).
func includeIf(w *World, r *Report, from, why string, min int, pred func(o *Obligation) bool) {
	fn, ok := registry[from]
	if !ok {
		r.undecided("shared", "rules of "+from, "-", "not registered")
		return
	}
	if note := " Shared clauses from " + from + " (" + why + ") are evaluated here under the label 'shared " + from + ".…'."; !strings.Contains(r.Explain, note) {
		r.Explain += note
	}
	if including[from] {
		return
	}
	including[from] = true
	defer delete(including, from)
	r2 := newReport(r.Prop)
	r2.cfg = r.cfg
	fn(w, r2)
	n := 0
	for _, o := range r2.Obls {
		if !pred(o) {
			continue
		}
		n++
		o.Rule = "shared " + o.Rule
		o.Key = "shared " + o.Key
		r.Obls = append(r.Obls, o)
	}
	r.floor("shared "+from+" ("+why+")", n, min)
}

func configsFor(tier string) []Config {
	if tier == "thorough" {
		return []Config{
			{GOOS: "linux", GOARCH: "amd64"},
			{GOOS: "linux", GOARCH: "amd64", CHA: true},
			{GOOS: "linux", GOARCH: "386"},
			{GOOS: "linux", GOARCH: "arm64"},
			{GOOS: "windows", GOARCH: "amd64"},
			{GOOS: "linux", GOARCH: "amd64", Tags: "verif"},
			{GOOS: "linux", GOARCH: "386", Tags: "verif"},
		}
	}
	return []Config{{GOOS: "linux", GOARCH: "amd64"}}
}

func main() {
	prop := flag.String("property", "", "property id (C01..C17) or 'all'")
	tier := flag.String("tier", "", "quick|thorough (default: $VERIF_TIER or quick)")
	repo := flag.String("repo", "/repo", "repository root")
	verif := flag.String("verif", "", "verif directory (default: parent of the binary's directory)")
	dump := flag.String("dump", "", "debug: preds|flow:<func>|forms|dispatch")
	replay := flag.String("replay", "", "replay file: re-evaluate the property of that obligation verbosely")
	flag.Parse()
	// a soft heap limit: the explorations allocate fast and most of it is garbage at once;
	// without a limit the heap is allowed to double between collections and a heavy
	// exploration peaks above 20 GB where 6-8 GB suffice (same run time)
	if os.Getenv("GOMEMLIMIT") == "" {
		debug.SetMemoryLimit(6 << 30)
	}
	if *tier == "" {
		*tier = os.Getenv("VERIF_TIER")
	}
	if *tier != "thorough" {
		*tier = "quick"
	}
	seed := 0
	if s := os.Getenv("VERIF_SEED"); s != "" {
		seed, _ = strconv.Atoi(s)
	}
	if *verif == "" {
		exe, _ := os.Executable()
		*verif = filepath.Dir(filepath.Dir(exe))
	}
	if *replay != "" {
		b, err := os.ReadFile(*replay)
		if err != nil {
			fmt.Println("ERROR", err)
			os.Exit(2)
		}
		fmt.Printf("replaying obligation:\n%s\n", b)
		base := filepath.Base(*replay)
		if i := strings.Index(base, "-"); i > 0 {
			*prop = base[:i]
		}
	}
	if *dump != "" {
		w, err := loadWorld(*repo, Config{GOOS: "linux", GOARCH: "amd64"})
		if err != nil {
			fmt.Println("ERROR", err)
			os.Exit(2)
		}
		debugDump(w, *dump)
		return
	}
	var props []string
	if *prop == "all" {
		for p := range registry {
			props = append(props, p)
		}
		sort.Strings(props)
	} else if _, ok := registry[*prop]; ok {
		props = []string{*prop}
	} else {
		fmt.Printf("ERROR unknown property %q\n", *prop)
		os.Exit(2)
	}
	started := time.Now()
	cfgs := configsFor(*tier)
	var worlds []*World
	var cfgNames []string
	for _, c := range cfgs {
		w, err := loadWorld(*repo, c)
		if err != nil {
			// a tree that does not load is not analysable: every property fails
			for _, p := range props {
				fmt.Printf("UNDECIDED %s: cannot analyse %s: %v\n", p, c, err)
				fmt.Printf("VIOLATION property=%s replay=%s\n", p, filepath.Join(*verif, "evidence", p+".json"))
			}
			os.Exit(1)
		}
		if len(w.Pkgs) < 2 || w.NFiles < 15 {
			for _, p := range props {
				fmt.Printf("UNDECIDED %s: only %d packages / %d library files were loaded for %s\n", p, len(w.Pkgs), w.NFiles, c)
				fmt.Printf("VIOLATION property=%s replay=%s\n", p, filepath.Join(*verif, "evidence", p+".json"))
			}
			os.Exit(1)
		}
		worlds = append(worlds, w)
		cfgNames = append(cfgNames, c.String())
	}
	exit := 0
	for _, p := range props {
		t0 := time.Now()
		if len(props) == 1 {
			t0 = started
		}
		rep := newReport(p)
		rep.Explain = explain[p][0]
		// the claim of record is the one in MANIFEST.json (kept current by gen_manifest.py):
		// the evidence quotes it so that the two cannot drift apart
		if claim := manifestClaim(*verif, p); claim != "" {
			rep.Explain = claim
		}
		rep.RuleText = explain[p][1]
		rep.Assume = assumptions[p]
		evals := 0
		for _, w := range worlds {
			rep.cfg = w.Cfg.String()
			before := len(rep.Obls)
			func() {
				defer func() {
					if e := recover(); e != nil {
						if os.Getenv("HLINT_STACK") != "" {
							fmt.Fprintf(os.Stderr, "panic: %v\n%s\n", e, debug.Stack())
						}
						rep.undecided("internal", "analyser panic under "+w.Cfg.String(), "-", fmt.Sprint(e))
					}
				}()
				including[p] = true
				defer delete(including, p)
				registry[p](w, rep)
			}()
			evals += len(rep.Obls) - before
		}
		rep.note("packages=%d library_files=%d package_functions=%d", len(worlds[0].Pkgs), worlds[0].NFiles, len(worlds[0].SrcFuncs()))
		if *tier == "thorough" && os.Getenv("HLINT_NO_CORPUS") == "" {
			replayCorpus(rep, p, *repo, *verif)
		}
		if c := finish(rep, *tier, seed, *verif, cfgNames, t0, evals); c > exit {
			exit = c
		}
	}
	os.Exit(exit)
}

// manifestClaim: level_claimed.text of the property in <verif>/MANIFEST.json ("" if unavailable).
func manifestClaim(verif, prop string) string {
	b, err := os.ReadFile(filepath.Join(verif, "MANIFEST.json"))
	if err != nil {
		return ""
	}
	var m struct {
		Checks []struct {
			PropertyID   string `json:"property_id"`
			LevelClaimed struct {
				Text string `json:"text"`
			} `json:"level_claimed"`
		} `json:"checks"`
	}
	if json.Unmarshal(b, &m) != nil {
		return ""
	}
	for _, c := range m.Checks {
		if c.PropertyID == prop {
			return c.LevelClaimed.Text
		}
	}
	return ""
}
