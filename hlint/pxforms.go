package main

// Wire forms and dispatch maps computed with the path explorer (robust to
// helper extraction, inlining, switch/if restructuring and byte-slice idioms).

import (
	"fmt"
	"go/types"
	"sort"
	"strings"

	"golang.org/x/tools/go/ssa"
)

// PForm: one way an encoder renders a value, aggregated over the paths that
// produce the same octet expressions.
type PForm struct {
	Oct     []*Term
	Open    bool
	Pay     []ssa.Value
	IsErr   bool // the path returns a non-nil error
	IsNil   bool // returns a nil slice with nil error
	Pos     string
	Envs    []Env // one per contributing path
	sig     string
	Unknown bool // the returned slice could not be modelled
}

func octSig(oct []*Term, open bool) string {
	var ks []string
	for _, t := range oct {
		if t == nil {
			ks = append(ks, "?")
		} else {
			ks = append(ks, t.key)
		}
	}
	s := strings.Join(ks, "|")
	if open {
		s += "|…"
	}
	return s
}

// pxEncForms explores a scalar encoder func(T) []byte | ([]byte, error).
func (w *World) pxEncForms(enc *ssa.Function) ([]*PForm, *PX) {
	by := map[string]*PForm{}
	var order []string
	var px *PX
	px = w.newPX(pxHooks{
		onReturn: func(fr *pxFrame, ret *ssa.Return, results []*Term, st *pxState) {
			f := &PForm{Pos: w.instrPos(ret)}
			if len(ret.Results) == 2 && !isNilConst(ret.Results[1]) {
				// error path?  a forwarded error value that is nil on this path is not an error
				if w.nonNilErr(ret.Results[1], nil, nil, 0) {
					f.IsErr = true
				} else if s, has := st.env["("+results[1].key+" != nil:error)"]; has && s.Equal(single(1)) {
					f.IsErr = true
				}
			}
			bs := px.byteSeqOf(ret.Results[0], fr, st)
			switch {
			case f.IsErr:
				f.sig = "error@" + f.Pos
			case bs == nil && isNilConst(ret.Results[0]):
				f.IsNil = true
				f.sig = "nil"
			case bs == nil:
				f.Unknown = true
				f.sig = "unknown@" + f.Pos
			default:
				f.Oct, f.Open, f.Pay = append([]*Term(nil), bs.Oct...), bs.Open, bs.Pay
				f.sig = octSig(f.Oct, f.Open)
			}
			if g, ok := by[f.sig]; ok {
				g.Envs = append(g.Envs, st.env.clone())
				return
			}
			f.Envs = []Env{st.env.clone()}
			by[f.sig] = f
			order = append(order, f.sig)
		},
	})
	px.Run(enc, nil)
	var out []*PForm
	for _, s := range order {
		out = append(out, by[s])
	}
	return out, px
}

// evalOver: union of the values of term t over the form's paths.
func (px *PX) evalOver(f *PForm, t *Term) (ISet, bool) {
	var acc ISet
	lossy := false
	for _, env := range f.Envs {
		px.cur = &pxState{env: env}
		s, fl := px.f.Eval(t, env)
		if s == nil {
			return nil, false
		}
		if fl.Lossy || fl.Overflow {
			lossy = true
		}
		acc = acc.Union(s)
	}
	return acc, lossy
}

// ---- decoders, one tag at a time ----

type tagRun struct {
	Payload  int
	OK       bool // a nil-error return is reachable
	Rejected bool // a constructed error is returned (tag not accepted)
	Mixed    bool // several nil-error returns with different payloads
	Short    bool // a non-full read primitive was used
	Unknown  bool
	Pos      string
	Result   *Term    // value term of the successful return (first result)
	Origin   *Term    // the recorded call Result stands for (time.Unix(…)), if any
	State    *pxState // the path's final state (origins of further leaves)
	Env      Env
	Ret      *ssa.Return
}

// readOctets: how many octets a call pulls from the stream on this path
// (-1: not a read; -2: a read of unknown size; -3: a possibly-short read).
func (px *PX) readOctets(c *ssa.Call, fr *pxFrame, st *pxState) int {
	if c.Call.IsInvoke() {
		switch c.Call.Method.Name() {
		case "ReadByte":
			return 1
		case "Read":
			return -3
		case "ReadRune":
			return -2
		}
		return -1
	}
	sc := c.Call.StaticCallee()
	if sc == nil {
		return -1
	}
	switch qualifiedFnName(sc) {
	case "io.ReadFull", "io.ReadAtLeast":
		if bs := px.byteSeqOf(c.Call.Args[1], fr, st); bs != nil {
			if len(c.Call.Args) == 3 {
				// io.ReadAtLeast fills the buffer only when min is its length
				if m, _ := px.eval(c.Call.Args[2], fr, st); m == nil || !m.Equal(single(int64(len(bs.Oct)))) {
					return -3
				}
			}
			return len(bs.Oct)
		}
		// length of a slice of unknown content: evaluate len
		t := &Term{K: TPure, Name: "len", Args: []*Term{px.term(c.Call.Args[1], fr, st)}, T: types.Typ[types.Int]}
		t.key = "len(" + t.Args[0].key + ")"
		if ms, ok := c.Call.Args[1].(*ssa.MakeSlice); ok {
			if s, _ := px.eval(ms.Len, fr, st); s != nil && s.Card().Cmp(one) == 0 {
				return int(s.Min().Int64())
			}
		}
		return -2
	}
	return -1
}

// pxDecodeTag explores decoder dec(reader, flag) with the flag fixed to tag t.
func (w *World) pxDecodeTag(dec *ssa.Function, t int) tagRun {
	var flag *ssa.Parameter
	var tagParam *ssa.Parameter
	for _, p := range dec.Params {
		switch typeStr(p.Type()) {
		case "int32":
			flag = p
		case "byte", "uint8":
			tagParam = p
		}
	}
	ctx := Env{}
	if flag != nil {
		ctx["<p:"+flag.Name()+">"] = single(int64(t))
	}
	if tagParam != nil {
		ctx["<p:"+tagParam.Name()+">"] = single(int64(t))
	}
	var run tagRun
	first := true
	var px *PX
	px = w.newPX(pxHooks{
		onInstr: func(fr *pxFrame, in ssa.Instruction, st *pxState) bool {
			c, ok := in.(*ssa.Call)
			if !ok {
				return true
			}
			n := px.readOctets(c, fr, st)
			if n == -1 {
				return true
			}
			cur := 0
			if v, ok := st.vals["__payload"]; ok {
				cur = int(v.C.Int64())
			}
			switch {
			case n == -3:
				st.vals["__short"] = zeroTerm(types.Typ[types.Int])
			case n == -2:
				st.vals["__unknown"] = zeroTerm(types.Typ[types.Int])
			default:
				cur += n
			}
			st.vals["__payload"] = &Term{K: TConst, C: bi(int64(cur)), T: types.Typ[types.Int], key: fmt.Sprint(cur)}
			return true
		},
		onReturn: func(fr *pxFrame, ret *ssa.Return, results []*Term, st *pxState) {
			idx := errIndex(dec.Signature)
			isErr := false
			if idx >= 0 && !isNilConst(ret.Results[idx]) && !errKnownNil(results[idx], st.env) {
				// the error is classified by the value that reaches the return on THIS path
				// (a named result / merged `return v, err` is a φ: its term is the edge taken)
				if pxErrConstructed(ret.Results[idx], results[idx]) {
					run.Rejected = true
					if run.Pos == "" {
						run.Pos = w.instrPos(ret)
					}
					return
				}
				isErr = true
			}
			if isErr {
				return // a failed read: not a form
			}
			pay := 0
			if v, ok := st.vals["__payload"]; ok {
				pay = int(v.C.Int64())
			}
			if _, ok := st.vals["__short"]; ok {
				run.Short = true
			}
			if _, ok := st.vals["__unknown"]; ok {
				run.Unknown = true
			}
			if !first && run.OK && run.Payload != pay {
				run.Mixed = true
			}
			first = false
			run.OK = true
			run.Payload = pay
			run.Pos = w.instrPos(ret)
			run.Result = results[0]
			run.Origin = st.originOf(results[0])
			run.State = st
			run.Env = st.env.clone()
			run.Ret = ret
		},
	})
	px.Run(dec, ctx)
	if px.Truncated {
		run.Unknown = true
	}
	return run
}

// ---- predicate summaries by enumeration ----

// pxPredicate: the set of values of the single integer parameter for which a
// pure predicate returns true, by exploring it for every value of the domain
// [0,hi].  Exact whatever the predicate's arithmetic (masks, wrap-around
// tests, helper functions, switches).
func (w *World) pxPredicate(fn *ssa.Function, hi int) (ISet, bool) {
	if len(fn.Params) != 1 {
		return nil, false
	}
	return w.pxPredicateCtx(fn, 0, hi, nil)
}

// pxPredicateCtx: the predicate's truth set over 0..hi of parameter #idx with
// the other parameters fixed to the constants in fixed (flow_enum.go: a
// predicate specialised by the constant operands of one call site).
func (w *World) pxPredicateCtx(fn *ssa.Function, idx int, hi int, fixed Env) (ISet, bool) {
	var acc ISet
	for v := 0; v <= hi; v++ {
		res, seen, bad := false, false, false
		px := w.newPX(pxHooks{
			onReturn: func(fr *pxFrame, ret *ssa.Return, results []*Term, st *pxState) {
				px2 := w.newPX(pxHooks{})
				s, _ := px2.evalTerm(results[0], st)
				if s == nil || s.Card().Cmp(one) != 0 {
					if results[0].K == TBoolConst {
						r := results[0].Bool
						if seen && r != res {
							bad = true
						}
						res, seen = r, true
						return
					}
					// a comparison decided on this path is recorded under its key
					if c, has := st.env[results[0].key]; has && c.Card().Cmp(one) == 0 {
						r := c.Min().Sign() != 0
						if seen && r != res {
							bad = true
						}
						res, seen = r, true
						return
					}
					// a comparison returned as a value (no branch on it): with the parameter
					// fixed, exactly one outcome is feasible (wrap-around range tests  tag-lo <= hi-lo)
					px2.cur = st
					_, tok := px2.f.refine(st.env, results[0], true)
					_, fok := px2.f.refine(st.env, results[0], false)
					if tok != fok {
						if seen && tok != res {
							bad = true
						}
						res, seen = tok, true
						return
					}
					bad = true
					return
				}
				r := s.Min().Sign() != 0
				if seen && r != res {
					bad = true
				}
				res, seen = r, true
			},
		})
		env := Env{"<p:" + fn.Params[idx].Name() + ">": single(int64(v))}
		for k, c := range fixed {
			env[k] = c
		}
		px.Run(fn, env)
		if bad || !seen || px.Truncated {
			return nil, false
		}
		if res {
			acc = acc.Union(single(int64(v)))
		}
	}
	return acc, true
}

// ---- dispatch, one tag at a time ----

type armRun struct {
	Label  string
	Callee string
	Pos    string
	Handed bool
}

// pxDispatchTag: in dispatcher fn, with the tag octet fixed to t, the first
// reader the value is handed to (or the constant outcome).
// The tag enters either through a byte / int32 parameter (ctx) or as result
// #0 of the first tag-source call (a package function returning (byte, error)).
func (w *World) pxDispatchTag(fn *ssa.Function, t int, boundaries map[*ssa.Function]string) []armRun {
	ctx := Env{}
	hasParamTag := false
	for _, p := range fn.Params {
		switch typeStr(p.Type()) {
		case "byte", "uint8", "int32":
			ctx["<p:"+p.Name()+">"] = single(int64(t))
			hasParamTag = true
		}
	}
	var arms []armRun
	seen := map[string]bool{}
	add := func(a armRun) {
		k := a.Label + "|" + a.Callee + "|" + fmt.Sprint(a.Handed)
		if !seen[k] {
			seen[k] = true
			arms = append(arms, a)
		}
	}
	var px *PX
	isTagSource := func(sc *ssa.Function) bool {
		if sc == nil || !w.inPkg(sc) {
			return false
		}
		r := sc.Signature.Results()
		return r.Len() == 2 && (typeStr(r.At(0).Type()) == "byte" || typeStr(r.At(0).Type()) == "uint8") && isErrorType(r.At(1).Type())
	}
	px = w.newPX(pxHooks{
		onInstr: func(fr *pxFrame, in ssa.Instruction, st *pxState) bool {
			c, ok := in.(*ssa.Call)
			if !ok {
				return true
			}
			if _, done := st.vals["__arm"]; done {
				return false
			}
			sc := px.calleeOf(c, fr, st) // static, or through a function value the path knows
			if sc == nil {
				return true
			}
			if _, bound := st.vals["__tag"]; !bound && !hasParamTag && !(isTagSource(sc) && tagCarrierChain(fr)) {
				// before the dispatcher has read its tag: readers met here belong to an
				// earlier part of the production (a class definition before its instance)
				if _, isB := boundaries[sc]; isB {
					return false
				}
				return true
			}
			if isTagSource(sc) {
				if _, bound := st.vals["__tag"]; !bound && !hasParamTag && tagCarrierChain(fr) {
					// bind the octet read here to t, with a nil error
					reg := px.reg(fr, c)
					tt := &Term{K: TConst, C: bi(int64(t)), T: types.Typ[types.Uint8], key: fmt.Sprint(t)}
					st.vals[reg+"#0"] = tt
					st.vals["__tag"] = tt
					st.env["(<x#1<"+reg+">> != nil:error)"] = single(0)
					st.env["(<x#1<"+reg+">> == nil:error)"] = single(1)
					return false
				}
				// getTag(reader, flag) with a known flag is stepped into; a second fresh read is part of the arm
				if hasParamTag {
					return true
				}
			}
			if label, isB := boundaries[sc]; isB {
				handed := false
				avs, ats := px.callArgs(c, fr, st)
				for ai, at := range ats {
					s, _ := px.evalTerm(at, st)
					if s != nil && s.Equal(single(int64(t))) {
						if _, isC := avs[ai].(*ssa.Const); !isC {
							handed = true
						}
					}
				}
				st.vals["__arm"] = zeroTerm(types.Typ[types.Int])
				add(armRun{Label: label, Callee: fnName(sc), Pos: w.instrPos(c), Handed: handed})
				return false
			}
			return true
		},
		onReturn: func(fr *pxFrame, ret *ssa.Return, results []*Term, st *pxState) {
			if _, done := st.vals["__arm"]; done {
				return
			}
			if _, bound := st.vals["__tag"]; !bound && !hasParamTag {
				return // the tag read failed on this path
			}
			idx := errIndex(fn.Signature)
			if idx >= 0 {
				et := results[idx]
				ev := ssa.Value(nil)
				if et != nil {
					ev = et.V
				}
				isNil := et != nil && strings.HasPrefix(et.key, "nil:")
				if s, has := st.env["("+et.key+" != nil:error)"]; has && s.Equal(single(0)) {
					isNil = true
				}
				if !isNil {
					if _, mk := ev.(*ssa.MakeInterface); mk {
						add(armRun{Label: "error", Pos: w.instrPos(ret)})
						return
					}
					if ev != nil && isEOFLoad(ev) {
						add(armRun{Label: "end", Pos: w.instrPos(ret)})
						return
					}
					add(armRun{Label: "error?", Pos: w.instrPos(ret)})
					return
				}
			}
			// constant outcome
			label := "return(?)"
			if len(results) > 0 {
				r0 := results[0]
				for r0.K == TConv {
					r0 = r0.A
				}
				switch {
				case isNilConst(ret.Results[0]) || strings.HasPrefix(r0.key, "nil:"):
					label = "null"
				case r0.K == TBoolConst:
					label = fmt.Sprintf("bool:%v", r0.Bool)
				default:
					if mi, ok := r0.V.(*ssa.MakeInterface); ok {
						t2 := px.term(mi.X, fr, st)
						if t2.K == TBoolConst {
							label = fmt.Sprintf("bool:%v", t2.Bool)
						}
					}
					if mi, ok := ret.Results[0].(*ssa.MakeInterface); ok {
						t2 := px.term(mi.X, fr, st)
						if t2.K == TBoolConst {
							label = fmt.Sprintf("bool:%v", t2.Bool)
						} else if s, has := st.env[t2.key]; has && s.Card().Cmp(one) == 0 && typeStr(mi.X.Type()) == "bool" {
							label = fmt.Sprintf("bool:%v", s.Min().Sign() != 0)
						}
					}
				}
			}
			if len(ret.Results) == 1 && isNilConst(ret.Results[0]) {
				label = "null"
			}
			if label == "return(?)" && len(results) > 0 && results[0].V != nil {
				if mi, ok := results[0].V.(*ssa.MakeInterface); ok {
					// the boxed value may come from an inlined frame: evaluate its condition facts
					for k, sv := range st.env {
						if strings.Contains(k, " == ") && sv.Card().Cmp(one) == 0 && mi.X.Type().String() == "bool" {
							_ = k
						}
					}
				}
			}
			add(armRun{Label: label, Pos: w.instrPos(ret)})
		},
	})
	px.Run(fn, ctx)
	if px.Truncated {
		arms = append(arms, armRun{Label: "truncated"})
	}
	sort.Slice(arms, func(i, j int) bool { return arms[i].Label < arms[j].Label })
	return arms
}

// pxRetRangeOK: the values of integer result idx of fn over its nil-error
// return paths, by path exploration (nil: not decided within a small budget).
func (w *World) pxRetRangeOK(fn *ssa.Function, idx int) ISet {
	ei := errIndex(fn.Signature)
	if fn.Blocks == nil || ei < 0 || idx >= fn.Signature.Results().Len() {
		return nil
	}
	var acc ISet
	bad := false
	var px *PX
	px = w.newPX(pxHooks{
		onReturn: func(fr *pxFrame, ret *ssa.Return, results []*Term, st *pxState) {
			if !isNilConst(ret.Results[ei]) {
				if w.nonNilErr(ret.Results[ei], nil, nil, 0) {
					return
				}
				if s, has := st.env["("+results[ei].key+" != nil:error)"]; has && s.Equal(single(1)) {
					return
				}
			}
			// (a wrap-around inside the term is modelled by the evaluator: the set is still an over-approximation)
			s, _ := px.evalTerm(results[idx], st)
			if s == nil {
				bad = true
				return
			}
			acc = acc.Union(s)
		},
	})
	px.maxPaths, px.maxSteps = 400, 40000
	px.Run(fn, nil)
	if bad || px.Truncated || acc.Empty() {
		return nil
	}
	return acc
}
