package main

// Read-only package tables.
//
// A table-driven codec keeps its forms in a package-level array / slice of
// structs ({tag, payload octets, convert func}) that is filled by the package
// initialiser and never written again.  Such memory is part of the program
// text: a load from `table[2].octets` is the constant the initialiser stored
// there, and `table[2].convert` is a known function.  This file computes, from
// the SSA of the synthetic package initialiser, what is stored where
// (root object + access path of constant indices and fields -> stored value)
// and decides when the object is read-only:
//
//   - the variable itself is unexported and is stored to only by the initialiser;
//   - no instruction outside the initialiser can write an element: for struct
//     elements that is decided by TYPE (Go's type system forces a write to a
//     field of T to be a store through a FieldAddr on *T, a store of a whole T /
//     array of T, a copy/append on []T, or to go through unsafe / reflection —
//     boxing a *T or []T, converting it to unsafe.Pointer or handing it to
//     code outside the package all count as a possible write); for elements of
//     basic type the uses of the variable itself must all be loads.
//
// Anything else (a computed index in the initialiser, two stores to one path,
// an element type that is written somewhere) makes the object opaque, which
// can only make an obligation UNDECIDED.

import (
	"fmt"
	"go/constant"
	"go/token"
	"go/types"
	"math/big"
	"strings"

	"golang.org/x/tools/go/ssa"
)

type roRoot struct {
	root  ssa.Value // *ssa.Global, or the *ssa.Alloc backing a slice literal of the initialiser
	obj   types.Type
	vals  map[string]ssa.Value // path "2/1" -> value stored by the initialiser
	dirty bool
}

type roTables struct {
	roots   map[ssa.Value]*roRoot
	alias   map[*ssa.Global]*ssa.Alloc // slice-typed variable -> backing array of its literal
	written map[string]bool            // element types some instruction outside the initialiser may write
	exposed map[string]bool            // types whose memory is handed to reflection / unsafe / code outside the package
	fsets   map[string]ISet            // field value sets (fieldValueSet), nil entry: unknown
	gdirty  map[*ssa.Global]bool       // variables stored to outside the initialiser
	okBasic map[ssa.Value]bool         // roots of basic elements whose uses are all loads
}

func roPathKey(path []int) string {
	var sb strings.Builder
	for i, p := range path {
		if i > 0 {
			sb.WriteByte('/')
		}
		fmt.Fprint(&sb, p)
	}
	return sb.String()
}

func roTypeKey(t types.Type) string { return types.TypeString(t, nil) }

// elemTypesOf: the struct / basic types a value of type t contains by value
// (t itself, array elements).
func elemTypesOf(t types.Type, out map[string]bool) {
	out[roTypeKey(t)] = true
	switch u := t.Underlying().(type) {
	case *types.Array:
		elemTypesOf(u.Elem(), out)
	}
}

func (w *World) roTabs() *roTables {
	if w.roCache != nil {
		return w.roCache
	}
	rt := &roTables{roots: map[ssa.Value]*roRoot{}, alias: map[*ssa.Global]*ssa.Alloc{}, written: map[string]bool{}, exposed: map[string]bool{}, fsets: map[string]ISet{}, gdirty: map[*ssa.Global]bool{}, okBasic: map[ssa.Value]bool{}}
	w.roCache = rt
	initFn := w.Pkg.Func("init")
	if initFn == nil {
		return rt
	}
	// resolve an address of the initialiser to (root, path)
	var resolve func(a ssa.Value) (ssa.Value, []int, bool)
	resolve = func(a ssa.Value) (ssa.Value, []int, bool) {
		switch x := a.(type) {
		case *ssa.Global:
			if x.Pkg == w.Pkg {
				return x, nil, true
			}
		case *ssa.Alloc:
			if x.Heap {
				return x, nil, true
			}
		case *ssa.FieldAddr:
			r, p, ok := resolve(x.X)
			if r == nil {
				return nil, nil, false
			}
			return r, append(append([]int(nil), p...), x.Field), ok
		case *ssa.IndexAddr:
			r, p, ok := resolve(x.X)
			if r == nil {
				return nil, nil, false
			}
			c, isC := x.Index.(*ssa.Const)
			if !isC || c.Value == nil {
				return r, nil, false // computed index: the root is no longer known
			}
			return r, append(append([]int(nil), p...), int(c.Int64())), ok
		}
		return nil, nil, false
	}
	get := func(r ssa.Value) *roRoot {
		if rr, ok := rt.roots[r]; ok {
			return rr
		}
		t := r.Type()
		if pt, ok := t.Underlying().(*types.Pointer); ok {
			t = pt.Elem()
		}
		rr := &roRoot{root: r, obj: t, vals: map[string]ssa.Value{}}
		rt.roots[r] = rr
		return rr
	}
	for _, b := range initFn.Blocks {
		for _, in := range b.Instrs {
			st, ok := in.(*ssa.Store)
			if !ok {
				continue
			}
			r, path, ok := resolve(st.Addr)
			if r == nil {
				continue
			}
			rr := get(r)
			if !ok {
				rr.dirty = true
				continue
			}
			k := roPathKey(path)
			if _, dup := rr.vals[k]; dup {
				rr.dirty = true
			}
			rr.vals[k] = st.Val
			if g, isG := r.(*ssa.Global); isG && len(path) == 0 {
				if sl, isSl := st.Val.(*ssa.Slice); isSl && sl.Low == nil && sl.High == nil && sl.Max == nil {
					if al, isAl := sl.X.(*ssa.Alloc); isAl && al.Heap {
						rt.alias[g] = al
					}
				}
			}
		}
	}
	// anything in the initialiser that uses a backing array other than to fill it makes it opaque
	for r, rr := range rt.roots {
		al, isAl := r.(*ssa.Alloc)
		if !isAl {
			continue
		}
		for _, ref := range *al.Referrers() {
			switch x := ref.(type) {
			case *ssa.IndexAddr, *ssa.FieldAddr:
			case *ssa.Slice:
				// only `var g = []T{…}`: the slice goes into one variable and nowhere else
				for _, r2 := range *x.Referrers() {
					if s2, ok := r2.(*ssa.Store); !ok || s2.Val != ssa.Value(x) {
						rr.dirty = true
					} else if _, isG := s2.Addr.(*ssa.Global); !isG {
						rr.dirty = true
					}
				}
			default:
				rr.dirty = true
			}
		}
	}
	// possible writers outside the initialiser
	mark := func(t types.Type) {
		if t == nil {
			return
		}
		elemTypesOf(t, rt.written)
	}
	expose := func(t types.Type) {
		if t == nil {
			return
		}
		elemTypesOf(t, rt.written)
		elemTypesOf(t, rt.exposed)
	}
	pointee := func(t types.Type) types.Type {
		switch u := t.Underlying().(type) {
		case *types.Pointer:
			return u.Elem()
		case *types.Slice:
			return u.Elem()
		}
		return nil
	}
	for _, fn := range w.allPkgFuncs() {
		if fn == initFn {
			continue
		}
		for _, b := range fn.Blocks {
			for _, in := range b.Instrs {
				switch x := in.(type) {
				case *ssa.Store:
					if g, ok := x.Addr.(*ssa.Global); ok {
						rt.gdirty[g] = true
					}
					// memory allocated by the function itself is never the table
					base := x.Addr
					for {
						if fa, ok := base.(*ssa.FieldAddr); ok {
							base = fa.X
						} else if ia, ok := base.(*ssa.IndexAddr); ok {
							base = ia.X
						} else {
							break
						}
					}
					if _, local := base.(*ssa.Alloc); local {
						continue
					}
					mark(x.Val.Type())
					if fa, ok := x.Addr.(*ssa.FieldAddr); ok {
						mark(pointee(fa.X.Type()))
					}
				case *ssa.MakeInterface:
					expose(pointee(x.X.Type()))
				case *ssa.Convert:
					if b, ok := x.Type().Underlying().(*types.Basic); ok && b.Kind() == types.UnsafePointer {
						expose(pointee(x.X.Type()))
					}
					if b, ok := x.X.Type().Underlying().(*types.Basic); ok && b.Kind() == types.UnsafePointer {
						expose(pointee(x.Type()))
					}
					if _, isSt := x.Type().Underlying().(*types.Struct); isSt {
						expose(x.Type()) // a struct converted from another struct type
					}
				case *ssa.ChangeType:
					if _, isSt := x.Type().Underlying().(*types.Struct); isSt {
						expose(x.Type())
					}
					if pt := pointee(x.Type()); pt != nil {
						if _, isSt := pt.Underlying().(*types.Struct); isSt {
							expose(pt)
						}
					}
				case *ssa.Call:
					c := x.Common()
					if bi, ok := c.Value.(*ssa.Builtin); ok {
						if (bi.Name() == "copy" || bi.Name() == "append") && len(c.Args) > 0 {
							mark(pointee(c.Args[0].Type()))
						}
						continue
					}
					sc := c.StaticCallee()
					if sc != nil && w.inPkg(sc) {
						continue
					}
					// a pointer / slice handed to code outside the package (or to an unknown callee)
					for _, a := range c.Args {
						if _, isC := a.(*ssa.Const); isC {
							continue
						}
						if pt := pointee(a.Type()); pt != nil {
							if _, isB := pt.Underlying().(*types.Basic); !isB {
								expose(pt)
							}
						}
					}
				}
			}
		}
	}
	// roots of basic elements: every use of the variable outside the initialiser is a load
	for r := range rt.roots {
		g, ok := r.(*ssa.Global)
		if !ok {
			continue
		}
		good := true
		for _, fn := range w.allPkgFuncs() {
			if fn == initFn {
				continue
			}
			for _, b := range fn.Blocks {
				for _, in := range b.Instrs {
					uses := false
					for _, op := range in.Operands(nil) {
						if *op == ssa.Value(g) {
							uses = true
						}
					}
					if !uses {
						continue
					}
					switch x := in.(type) {
					case *ssa.UnOp:
						if x.Op != token.MUL {
							good = false
						}
					case *ssa.IndexAddr:
						for _, r2 := range *x.Referrers() {
							if u, ok := r2.(*ssa.UnOp); !ok || u.Op != token.MUL {
								if _, dbg := r2.(*ssa.DebugRef); !dbg {
									good = false
								}
							}
						}
					default:
						good = false
					}
				}
			}
		}
		rt.okBasic[r] = good
	}
	return rt
}

// roResolve: the root object behind a package variable (the backing array of
// its slice literal when the variable is a slice).
func (w *World) roResolve(r ssa.Value) (*roRoot, bool) {
	rt := w.roTabs()
	if g, ok := r.(*ssa.Global); ok {
		if g.Pkg != w.Pkg || token.IsExported(g.Name()) || rt.gdirty[g] {
			return nil, false
		}
		if al, ok := rt.alias[g]; ok {
			r = al
		}
	}
	rr, ok := rt.roots[r]
	if !ok || rr.dirty {
		return nil, false
	}
	return rr, true
}

// roTypeAt: the type of the sub-object of t at path.
func roTypeAt(t types.Type, path []int) (types.Type, bool) {
	for _, i := range path {
		switch u := t.Underlying().(type) {
		case *types.Array:
			if i < 0 || int64(i) >= u.Len() {
				return nil, false
			}
			t = u.Elem()
		case *types.Struct:
			if i < 0 || i >= u.NumFields() {
				return nil, false
			}
			t = u.Field(i).Type()
		default:
			return nil, false
		}
	}
	return t, true
}

// roLoad: what a load of the sub-object at path of a read-only root yields.
// val is the value the initialiser stored (nil: the zero value of typ);
// aggregate is true when the sub-object is an array / struct (no single value).
func (w *World) roLoad(root ssa.Value, path []int) (val ssa.Value, typ types.Type, aggregate, ok bool) {
	rr, ok := w.roResolve(root)
	if !ok {
		return nil, nil, false, false
	}
	rt := w.roTabs()
	// every type on the way must be free of writers
	t := rr.obj
	for i := 0; ; i++ {
		switch t.Underlying().(type) {
		case *types.Struct:
			if rt.written[roTypeKey(t)] {
				return nil, nil, false, false
			}
		case *types.Array:
			if rt.written[roTypeKey(t)] {
				return nil, nil, false, false
			}
		default:
			// a leaf: an element of basic / func type of an array needs the root-based proof,
			// a field of a struct is covered by the struct's type
			if i > 0 {
				pt, _ := roTypeAt(rr.obj, path[:i-1])
				if _, isArr := pt.Underlying().(*types.Array); isArr {
					if g, isG := rr.root.(*ssa.Global); !isG || !rt.okBasic[g] {
						return nil, nil, false, false
					}
				}
			}
		}
		if i == len(path) {
			break
		}
		nt, ok := roTypeAt(t, path[i:i+1])
		if !ok {
			return nil, nil, false, false
		}
		t = nt
	}
	// a store to a prefix of the path is a whole-aggregate store: not followed
	for i := 0; i < len(path); i++ {
		if _, has := rr.vals[roPathKey(path[:i])]; has {
			return nil, nil, false, false
		}
	}
	switch t.Underlying().(type) {
	case *types.Struct, *types.Array:
		if _, has := rr.vals[roPathKey(path)]; has && len(path) > 0 {
			return nil, t, false, false
		}
		return nil, t, true, true
	}
	v, has := rr.vals[roPathKey(path)]
	if !has {
		return nil, t, false, true // never stored: zero
	}
	switch x := v.(type) {
	case *ssa.Const, *ssa.Function:
		return v, t, false, true
	case *ssa.MakeClosure:
		if len(x.Bindings) == 0 {
			return x.Fn, t, false, true
		}
	}
	return nil, t, false, false
}

// fieldValueSet: every value field #field of the unexported package struct
// type st can hold, whatever object it is read from — the zero value and the
// constants stored into that field anywhere in the package (initialiser
// included).  Field-based and object-insensitive: Go's type system forces a
// write to the field to be a store through a FieldAddr on *st (a composite
// literal is built that way too), whole-struct copies only move values that
// are already in the set, and the type cannot be built outside the package;
// memory of the type handed to reflection / unsafe / foreign code makes the
// set unknown (nil), as does any stored value that is not a constant.
func (w *World) fieldValueSet(structT types.Type, field int) ISet {
	named, ok := structT.(*types.Named)
	if !ok || named.Obj().Pkg() != w.TPkg || token.IsExported(named.Obj().Name()) {
		return nil
	}
	stt, ok := named.Underlying().(*types.Struct)
	if !ok || field < 0 || field >= stt.NumFields() {
		return nil
	}
	if _, ok := typeRange(w, stt.Field(field).Type()); !ok {
		return nil
	}
	rt := w.roTabs()
	key := fmt.Sprintf("%s#%d", roTypeKey(named), field)
	if s, done := rt.fsets[key]; done {
		return s
	}
	rt.fsets[key] = nil
	if rt.exposed[roTypeKey(named)] {
		return nil
	}
	set := single(0)
	for _, fn := range w.allPkgFuncs() {
		for _, b := range fn.Blocks {
			for _, in := range b.Instrs {
				st, ok := in.(*ssa.Store)
				if !ok {
					continue
				}
				fa, ok := st.Addr.(*ssa.FieldAddr)
				if !ok || fa.Field != field {
					continue
				}
				pt, ok := fa.X.Type().Underlying().(*types.Pointer)
				if !ok || !types.Identical(pt.Elem(), named) {
					continue
				}
				c, isC := st.Val.(*ssa.Const)
				if !isC || c.Value == nil {
					return nil
				}
				switch c.Value.Kind() {
				case constant.Int:
					v, ok := new(big.Int).SetString(c.Value.ExactString(), 10)
					if !ok {
						return nil
					}
					set = set.Union(ISet{{v, v}})
				case constant.Bool:
					if constant.BoolVal(c.Value) {
						set = set.Union(single(1))
					}
				default:
					return nil
				}
			}
		}
	}
	rt.fsets[key] = set
	return set
}
