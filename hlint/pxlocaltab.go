package main

// px: a local array of structs used as a table — `arms := [...]tagArm{{guard,
// decode}, …}` built by a composite literal and handed as `arms[:]` to a helper
// that only reads it (`for i := 0; i != len(arms); i++ { arm := &arms[i]; if
// arm.covers(tag) {…} }`).
//
// The field cells of px (pxmem.go) are keyed by the field's version, which every
// store to that field of ANY object of the type advances: sound for objects
// that may be aliased, but it makes all rows of a table except the last one
// unreadable.  For an array that provably has no writer other than the constant
// -index stores of the function that declares it, the memory is exactly what
// those stores put there on the path, whichever frame reads it:
//
//   - every use of the Alloc is an element address `&a[i]` (loaded, stored to
//     with a constant i, or narrowed to a field address that is loaded / stored
//     to), a load of the whole array, or `a[:]`;
//   - `a[:]` is only measured (len/cap), indexed for reading, or handed to static
//     package callees whose parameter is used in the same read-only ways;
//   - the stores sit in the same loops as the Alloc (a literal, not a fill loop).
//
// Anything else (address stored, boxed, captured, handed to library or dynamic
// code, a callee that writes through the slice) and the array is not a table.

import (
	"fmt"
	"go/token"
	"go/types"

	"golang.org/x/tools/go/ssa"
)

var localTabCache = map[*ssa.Alloc]bool{}

// localTable: al is a local array with the guarantees above.
func (w *World) localTable(al *ssa.Alloc) bool {
	if ok, known := localTabCache[al]; known {
		return ok
	}
	localTabCache[al] = false
	ok := w.localTable0(al)
	localTabCache[al] = ok
	return ok
}

func (w *World) localTable0(al *ssa.Alloc) bool {
	n, isArr := localArrayLen(al)
	if !isArr || n > 64 || al.Parent() == nil || al.Referrers() == nil {
		return false
	}
	if _, isBytes := isByteArrayPtr(al.Type()); isBytes {
		return false
	}
	loopsOf := func(b *ssa.BasicBlock) string {
		s := ""
		for _, lp := range naturalLoops(al.Parent()) {
			if lp.body[b] {
				s += fmt.Sprintf("%d,", lp.header.Index)
			}
		}
		return s
	}
	home := loopsOf(al.Block())
	// an element (or field of element) address in the declaring function
	var part func(a ssa.Value, constIdx bool, depth int) bool
	part = func(a ssa.Value, constIdx bool, depth int) bool {
		if a.Referrers() == nil || depth > 3 {
			return false
		}
		for _, ref := range *a.Referrers() {
			switch x := ref.(type) {
			case *ssa.DebugRef:
			case *ssa.UnOp:
				if x.Op != token.MUL {
					return false
				}
			case *ssa.Store:
				if x.Val == a || x.Addr != a || !constIdx || loopsOf(x.Block()) != home {
					return false
				}
				switch x.Val.Type().Underlying().(type) {
				case *types.Struct, *types.Array:
					return false // rows are filled field by field; a whole-row store is not followed
				}
			case *ssa.FieldAddr:
				if !part(x, constIdx, depth+1) {
					return false
				}
			default:
				return false
			}
		}
		return true
	}
	for _, ref := range *al.Referrers() {
		switch x := ref.(type) {
		case *ssa.DebugRef:
		case *ssa.UnOp:
			if x.Op != token.MUL {
				return false
			}
		case *ssa.IndexAddr:
			_, isC := x.Index.(*ssa.Const)
			if x.X != ssa.Value(al) || !part(x, isC, 0) {
				return false
			}
		case *ssa.Slice:
			if x.X != ssa.Value(al) || x.Low != nil || x.High != nil || x.Max != nil || !w.readOnlySliceTab(x, map[ssa.Value]bool{}) {
				return false
			}
		default:
			return false
		}
	}
	return true
}

// readOnlySliceTab: the slice value s is only measured, read element-wise, or
// handed to static package callees that use their parameter in these ways.
func (w *World) readOnlySliceTab(s ssa.Value, seen map[ssa.Value]bool) bool {
	if seen[s] {
		return true
	}
	seen[s] = true
	if s.Referrers() == nil {
		return false
	}
	var readPart func(a ssa.Value, depth int) bool
	readPart = func(a ssa.Value, depth int) bool {
		if a.Referrers() == nil || depth > 3 {
			return false
		}
		for _, ref := range *a.Referrers() {
			switch x := ref.(type) {
			case *ssa.DebugRef:
			case *ssa.UnOp:
				if x.Op != token.MUL {
					return false
				}
			case *ssa.FieldAddr:
				if !readPart(x, depth+1) {
					return false
				}
			default:
				return false
			}
		}
		return true
	}
	for _, ref := range *s.Referrers() {
		switch x := ref.(type) {
		case *ssa.DebugRef:
		case *ssa.IndexAddr:
			if x.X != s || !readPart(x, 0) {
				return false
			}
		case *ssa.Call:
			if b, isB := x.Call.Value.(*ssa.Builtin); isB {
				if b.Name() != "len" && b.Name() != "cap" {
					return false
				}
				continue
			}
			sc := x.Call.StaticCallee()
			if x.Call.IsInvoke() || sc == nil || sc.Blocks == nil || !w.inPkg(sc) || x.Call.Value == s || len(sc.FreeVars) > 0 {
				return false
			}
			for ai, a := range x.Call.Args {
				if a != s {
					continue
				}
				if ai >= len(sc.Params) || !w.readOnlySliceTab(sc.Params[ai], seen) {
					return false
				}
			}
		default:
			return false
		}
	}
	return true
}

// localTabCell: addr is `&a[c].f` (or `&a[c]`) with a a local table and c a
// constant on the path: the key of its cell.
func (p *PX) localTabCell(addr ssa.Value, fr *pxFrame, st *pxState) (string, bool) {
	suffix := ""
	for depth := 0; depth < 3; depth++ {
		fa, ok := addr.(*ssa.FieldAddr)
		if !ok {
			break
		}
		suffix = fmt.Sprintf(".%d", fa.Field) + suffix
		addr = fa.X
	}
	ia, ok := addr.(*ssa.IndexAddr)
	if !ok {
		return "", false
	}
	at := p.term(ia.X, fr, st)
	if at == nil || at.K != TLeaf {
		return "", false
	}
	al, ok := at.V.(*ssa.Alloc)
	if !ok || !p.w.localTable(al) {
		return "", false
	}
	it := p.term(ia.Index, fr, st)
	if it.K != TConst || !it.C.IsInt64() {
		return "", false
	}
	if n, _ := localArrayLen(al); it.C.Sign() < 0 || it.C.Int64() >= n {
		return "", false
	}
	return "ltab:" + at.key + "[" + it.C.String() + "]" + suffix, true
}

// localTabStore / localTabLoad: the store of a value into a cell of a local
// table, and the load of a scalar / function-valued cell.
func (p *PX) localTabStore(x *ssa.Store, fr *pxFrame, st *pxState) {
	if ck, ok := p.localTabCell(x.Addr, fr, st); ok {
		if _, isStruct := x.Val.Type().Underlying().(*types.Struct); isStruct {
			return // whole rows are not split (the literal stores field by field)
		}
		st.vals[ck] = p.term(x.Val, fr, st)
	}
}

func (p *PX) localTabLoad(addr ssa.Value, fr *pxFrame, st *pxState) *Term {
	if _, isFA := addr.(*ssa.FieldAddr); !isFA {
		return nil
	}
	if ck, ok := p.localTabCell(addr, fr, st); ok {
		if t, has := st.vals[ck]; has {
			return t
		}
	}
	return nil
}
