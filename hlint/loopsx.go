package main

// Terminator reports handed on by a helper.
//
// The container readers learn that the terminator 'Z' was read from the
// element read itself (`err == io.EOF`).  When the element read is moved into
// a helper that turns the report into a boolean result (`key, end, err :=
// d.readKey()`), the loop leaves on `end`.  That exit is the terminator exit
// exactly when the boolean can be true only on the helper's returns reached
// through the terminator report of one of the helper's own element reads; the
// summary below decides that from the helper's SSA (recursively through
// further helpers), so a result that is true for any other reason (a nil key,
// a value test) is still classified as a value exit.

import (
	"go/token"

	"golang.org/x/tools/go/ssa"
)

type termFlagKey struct {
	fn   *ssa.Function
	idx  int
	cont bool // the inverted report (`more`): see loopsx_more.go
}

var termFlagMemo = map[*World]map[termFlagKey]int{} // 1 in progress / no, 2 yes

func (w *World) reachesReadData() map[*ssa.Function]bool {
	rd := w.fn("(*Decoder).ReadData")
	if rd == nil {
		return nil
	}
	return w.canReach(map[*ssa.Function]bool{rd: true})
}

// eofTest: the block ends in a test of an error against io.EOF; returns the
// tested error and the successor taken when it IS io.EOF.
func eofTest(b *ssa.BasicBlock) (ssa.Value, *ssa.BasicBlock) {
	iff, ok := b.Instrs[len(b.Instrs)-1].(*ssa.If)
	if !ok {
		return nil, nil
	}
	bo, ok := iff.Cond.(*ssa.BinOp)
	if !ok || (bo.Op != token.EQL && bo.Op != token.NEQ) {
		return nil, nil
	}
	var e ssa.Value
	if isEOFLoad(bo.Y) {
		e = bo.X
	} else if isEOFLoad(bo.X) {
		e = bo.Y
	}
	if e == nil {
		return nil, nil
	}
	if bo.Op == token.EQL {
		return e, b.Succs[0]
	}
	return e, b.Succs[1]
}

// flagOperand strips negations: the boolean tested and whether it is negated.
func flagOperand(v ssa.Value) (ssa.Value, bool) {
	neg := false
	for {
		u, ok := v.(*ssa.UnOp)
		if !ok || u.Op != token.NOT {
			return v, neg
		}
		v, neg = u.X, !neg
	}
}

// terminatorFlagOf: v (a condition, possibly negated) is boolean result idx of
// a call to an in-package helper whose result idx is a terminator report.
// Returns the call, and whether the condition is the NEGATION of the report.
func (w *World) terminatorFlagOf(v ssa.Value) (*ssa.Call, bool, bool) {
	x, neg := flagOperand(v)
	ex, ok := x.(*ssa.Extract)
	if !ok {
		return nil, false, false
	}
	c, ok := ex.Tuple.(*ssa.Call)
	if !ok {
		return nil, false, false
	}
	sc := c.Call.StaticCallee()
	if sc == nil || !w.inPkg(sc) {
		return nil, false, false
	}
	if w.terminatorFlag(sc, ex.Index) {
		return c, neg, true
	}
	// the inverted report `key, more, err := d.nextKey()`: `!more` is the terminator
	// report wherever the error of the same call is known to be nil (loopsx_more.go)
	if w.continuationFlag(sc, ex.Index) && w.errNilWhereTested(c, v) {
		return c, !neg, true
	}
	return nil, false, false
}

// terminatorFlag: result idx of fn is a boolean that is true only on returns
// reached through the terminator report (err == io.EOF) of an element read
// made by fn (or through the terminator flag of a helper fn calls), and is
// true on at least one of them.
func (w *World) terminatorFlag(fn *ssa.Function, idx int) bool {
	memo := termFlagMemo[w]
	if memo == nil {
		memo = map[termFlagKey]int{}
		termFlagMemo[w] = memo
	}
	k := termFlagKey{fn, idx, false}
	if v, ok := memo[k]; ok {
		return v == 2
	}
	memo[k] = 1
	if w.terminatorFlagCompute(fn, idx, false) {
		memo[k] = 2
		return true
	}
	return false
}

func (w *World) terminatorFlagCompute(fn *ssa.Function, idx int, cont bool) bool {
	if fn.Blocks == nil || idx >= fn.Signature.Results().Len() || typeStr(fn.Signature.Results().At(idx).Type()) != "bool" {
		return false
	}
	reachesRD := w.reachesReadData()
	if reachesRD == nil {
		return false
	}
	// element reads of the helper
	reads := map[*ssa.Call]bool{}
	for _, b := range fn.Blocks {
		for _, in := range b.Instrs {
			c, ok := in.(*ssa.Call)
			if !ok || errIndex(c.Call.Signature()) < 0 {
				continue
			}
			for _, cal := range w.calleesOf(c) {
				if reachesRD[cal] {
					reads[c] = true
					break
				}
			}
		}
	}
	if len(reads) == 0 {
		return false
	}
	isReadErr := func(e ssa.Value) bool {
		if e == nil || !isErrorType(e.Type()) {
			return false
		}
		_, _, ok := derivesFromCall(e, reads, 0)
		return ok
	}
	// region entered only through a terminator report
	var heads []*ssa.BasicBlock
	for _, b := range fn.Blocks {
		if e, succ := eofTest(b); e != nil && isReadErr(e) && len(succ.Preds) == 1 {
			heads = append(heads, succ)
			continue
		}
		if iff, ok := b.Instrs[len(b.Instrs)-1].(*ssa.If); ok {
			if c, neg, ok := w.terminatorFlagOf(iff.Cond); ok && reads[c] {
				succ := b.Succs[0]
				if neg {
					succ = b.Succs[1]
				}
				if len(succ.Preds) == 1 {
					heads = append(heads, succ)
				}
			}
		}
	}
	inRegion := func(b *ssa.BasicBlock) bool {
		for _, h := range heads {
			if h.Dominates(b) {
				return true
			}
		}
		return false
	}
	sawTrue := false
	var ok func(v ssa.Value, at *ssa.BasicBlock, depth int) bool
	ok = func(v ssa.Value, at *ssa.BasicBlock, depth int) bool {
		if depth > 8 {
			return false
		}
		switch x := v.(type) {
		case *ssa.Const:
			if x.Value == nil {
				return false
			}
			if x.Value.String() == "false" {
				return true
			}
			if inRegion(at) {
				sawTrue = true
				return true
			}
			return false
		case *ssa.Phi:
			for i, e := range x.Edges {
				if !ok(e, x.Block().Preds[i], depth+1) {
					return false
				}
			}
			return true
		case *ssa.BinOp:
			// end := err == io.EOF
			if x.Op == token.EQL && ((isEOFLoad(x.X) && isReadErr(x.Y)) || (isEOFLoad(x.Y) && isReadErr(x.X))) {
				sawTrue = true
				return true
			}
		case *ssa.Extract:
			if c, neg, isF := w.terminatorFlagOf(x); isF && !neg && reads[c] {
				sawTrue = true
				return true
			}
		}
		return false
	}
	for _, b := range fn.Blocks {
		ret, isRet := b.Instrs[len(b.Instrs)-1].(*ssa.Return)
		if !isRet {
			continue
		}
		if cont {
			// the inverted report: false on a return that can succeed only inside the region
			// entered through the terminator report (loopsx_more.go)
			good, report := w.continuationReturn(ret, idx, inRegion(b))
			if !good {
				return false
			}
			sawTrue = sawTrue || report
			continue
		}
		if !ok(ret.Results[idx], b, 0) {
			return false
		}
	}
	return sawTrue
}
