package main

import (
	"go/token"
	"go/types"

	"golang.org/x/tools/go/ssa"
)

// streamingEntryPoints: the exported methods that CONTINUE a stream, found by
// what they are rather than by name: a method (of the encoder, the decoder, or
// a type composed of them) from which the value dispatch of one side is
// reachable, that is given no stream to work on — no parameter that is a writer,
// a reader or a byte slice — and that does not hand back a byte slice of its own.
// Such a method can only work on the stream installed by an earlier call, so the
// per-stream tables must survive it.  side is "enc" or "dec".
type streamEP struct {
	fn        *ssa.Function
	side      string
	composite bool // the receiver is not the codec itself but a type composed of it
}

func (w *World) streamingEntryPoints() []streamEP {
	wd, rd := w.fn("(*Encoder).WriteData"), w.fn("(*Decoder).ReadData")
	upEnc := map[*ssa.Function]bool{}
	upDec := map[*ssa.Function]bool{}
	if wd != nil {
		upEnc = w.canReach(map[*ssa.Function]bool{wd: true})
	}
	if rd != nil {
		upDec = w.canReach(map[*ssa.Function]bool{rd: true})
	}
	isStream := func(t types.Type) bool {
		if s, ok := t.Underlying().(*types.Slice); ok {
			if b, ok := s.Elem().Underlying().(*types.Basic); ok && b.Kind() == types.Uint8 {
				return true
			}
		}
		if it, ok := t.Underlying().(*types.Interface); ok {
			for i := 0; i < it.NumMethods(); i++ {
				switch it.Method(i).Name() {
				case "Write", "Read", "ReadByte", "ReadRune":
					return true
				}
			}
		}
		return false
	}
	var out []streamEP
	for _, fn := range w.SrcFuncs() {
		if fn.Parent() != nil || !token.IsExported(fn.Name()) || fn.Signature.Recv() == nil {
			continue
		}
		if !upEnc[fn] && !upDec[fn] {
			continue
		}
		sig := fn.Signature
		given := false
		for i := 0; i < sig.Params().Len(); i++ {
			if isStream(sig.Params().At(i).Type()) {
				given = true
			}
		}
		for i := 0; i < sig.Results().Len(); i++ {
			if isStream(sig.Results().At(i).Type()) {
				given = true
			}
		}
		if given {
			continue
		}
		side := "enc"
		if !upEnc[fn] {
			side = "dec"
		}
		rt := sig.Recv().Type()
		composite := !namedIs(rt, hessianPath, "Encoder") && !namedIs(rt, hessianPath, "Decoder")
		out = append(out, streamEP{fn, side, composite})
	}
	return out
}
