package main

import (
	"fmt"
	"go/token"
	"go/types"
	"math/big"
	"sort"
	"strings"

	"golang.org/x/tools/go/ssa"
)

func init() {
	register("C07", rulesC07,
		"Decides structural necessary conditions of 'integers exact and shortest': "+
			"R1 the input sets of the encoder's forms (computed by interval refinement along encodeInt/encodeLong) partition the type's range and each equals the specification's range for that octet count minus the shorter forms' ranges (all 2^32 / 2^64 inputs covered symbolically, not sampled); "+
			"R2 under each form's input set the first octet is zero-point + high bits with exactly the spec's tag interval, and the remaining octets are the big-endian windows of the value; "+
			"R3 the decoder accepts every tag of every spec form and pulls exactly the form's payload; every first octet the encoder can emit is accepted by the decoder, which pulls form-length-1 octets; "+
			"R4 every integer conversion between the reflected Go value and the wire type in the kind dispatch is value-preserving on the set of values reaching it (Kind facts bound reflect.Value.Int/Uint), or is a same-width reinterpretation that the struct-field decoder inverts. "+
			"Does NOT decide that the decoder's sign extension (unsafe casts, binary.BigEndian) reproduces the value bit for bit: that needs bit-vector reasoning (a solver: different technique family).",
		"obligation = one encoder form / one spec form of the decoder / one conversion in the kind dispatch; enumerated from SSA; non-trivial = discharged through a refined interval or tag set",
		"go/types constant folding", "reflect.Value.Int()/Uint() return a value within the range of the receiver's Kind")
	register("C08", rulesC08,
		"Decides structural necessary conditions of 'every float64 encodes, shortest exact form': "+
			"R1 totality — encodeDouble has no feasible return with a non-nil error; "+
			"R2 under the integrality guard float64(int64(v)) == v the guards select exactly {0}→x5b, {1}→x5c, [-128,127]→x5d+1, [-32768,32767]→x5e+2 (interval refinement on int64(v)), the octets are big-endian windows of int64(v); the 4-octet form is guarded by float64(float32(v)) == v and carries Float32bits(float32(v)), the 8-octet form carries Float64bits(v); "+
			"R3 the decoder accepts the six spec forms with payloads 0,0,1,2,4,8 and agrees with the encoder's octet counts. "+
			"Does NOT decide the floating-point exactness tests themselves (float64(float32(v)) == v as an exactness criterion, NaN payload preservation, int64(v) of huge/NaN inputs).",
		"obligation = one return / one form of encodeDouble, one spec form of decodeDoubleValue; non-trivial = needs the refined interval of int64(v)",
		"IEEE semantics of Go's float conversions are not modelled")
}

func rulesC07(w *World, r *Report) {
	w.ruleUnboxedNotNarrowed(r, "C07.R7 unboxed wire integers are not narrowed", 3)
	w.ruleNumEncoder(r, "C07.R1 shortest-form partition", "C07.R2 tag arithmetic and octet windows", "int", specInt)
	w.ruleNumEncoder(r, "C07.R1 shortest-form partition", "C07.R2 tag arithmetic and octet windows", "long", specLong)
	w.ruleDecoderForms(r, "C07.R3 reader accepts every spec form", "int")
	w.ruleDecoderForms(r, "C07.R3 reader accepts every spec form", "long")
	w.rulePairOctets(r, "C07.R3 encoder/decoder octet agreement", "int")
	w.rulePairOctets(r, "C07.R3 encoder/decoder octet agreement", "long")
	w.ruleWrapperForwards(r, "C07.R3 read wrappers forward the decoder", "int")
	w.ruleWrapperForwards(r, "C07.R3 read wrappers forward the decoder", "long")
	w.ruleDecoderInverts(r, "C07.R6 the decoder rebuilds the encoded integer bit for bit", "int")
	w.ruleDecoderInverts(r, "C07.R6 the decoder rebuilds the encoded integer bit for bit", "long")
	w.ruleKindNarrowing(r, "C07.R4 no silent narrowing in the kind dispatch")
	w.ruleNoIntThroughFloat(r, "C07.R5 decoded integers never pass through a floating-point type")
	includeIf(w, r, "C01", "every first octet of an int/long form reaches the int/long reader in every dispatcher", 8, func(o *Obligation) bool {
		// … and a typed list of longs is read under the list type its header
		// denotes: a type slot numbered differently on the two sides makes the
		// decoder build []int32 for a []int64 and cut every element (seeded C07m)
		if strings.Contains(o.Key, "C01.R2 type slots") {
			return true
		}
		return strings.Contains(o.Key, "C01.R2") && (strings.HasSuffix(o.Key, "emitted by int") || strings.HasSuffix(o.Key, "emitted by long"))
	})
	includeIf(w, r, "C13", "a refused integer makes the encode call fail: element and key errors are not dropped", 5, func(o *Obligation) bool {
		return strings.Contains(o.Key, "C13.R1")
	})
	r.note("spec table digest %s", specDigest())
}

func rulesC08(w *World, r *Report) {
	w.ruleDoubleEncoder(r, "C08.R1 totality", "C08.R2 form ranges and octets")
	w.ruleDecoderForms(r, "C08.R3 reader accepts every spec form", "double")
	w.rulePairOctets(r, "C08.R3 encoder/decoder octet agreement", "double")
	w.ruleWrapperForwards(r, "C08.R3 read wrappers forward the decoder", "double")
	w.ruleDecoderInverts(r, "C08.R5 the decoder rebuilds the encoded number bit for bit", "double")
	w.ruleFloatKinds(r, "C08.R3 float kinds use the double codec on both sides")
	w.ruleNoValueRejectionPX(r, "C08.R4 the float field reader rejects nothing but a failed read", []string{"Float32", "Float64"})
	includeIf(w, r, "C01", "every first octet of a double form reaches the double reader in every dispatcher", 4, func(o *Obligation) bool {
		return strings.Contains(o.Key, "C01.R2") && strings.HasSuffix(o.Key, "emitted by double")
	})
	r.note("spec table digest %s", specDigest())
}

// ruleKindNarrowing: integer conversions in WriteData.
func (w *World) ruleKindNarrowing(r *Report, rule string) {
	wd0 := w.fn("(*Encoder).WriteData")
	if wd0 == nil {
		r.undecided(rule, "(*Encoder).WriteData", "-", "anchor not found")
		return
	}
	// every *Encoder method reachable from the encode entry points (a fast path
	// beside the kind dispatch must obey the same discipline)
	reach := w.reachPkg(w.encoderRoots()...)
	n := 0
	// the scalar encoders (and what they call) cut the value into octets: those
	// conversions are the wire layout, decided by R2's octet windows
	scalarEnc := map[*ssa.Function]bool{}
	for _, c := range w.codecs() {
		if c.Enc != nil {
			for g := range w.reachPkg(c.Enc) {
				scalarEnc[g] = true
			}
		}
	}
	for _, wd := range w.SrcFuncs() {
		if !reach[rootFn(wd)] {
			continue
		}
		if wd.Signature.Recv() == nil || !namedIs(wd.Signature.Recv().Type(), hessianPath, "Encoder") {
			// helpers of the encoder (and closures): only conversions of integers that
			// provably are (part of) the value being encoded
			if scalarEnc[wd] || !w.hasInputIntegerConv(wd) {
				continue
			}
		}
		r.fnSeen(fnName(wd))
		f := w.flow(wd)
		cnt := map[string]int{}
		for _, b := range wd.Blocks {
			if !f.Reachable(b) {
				continue
			}
			for _, in := range b.Instrs {
				cv, ok := in.(*ssa.Convert)
				if !ok {
					continue
				}
				sb, ssig, ok1 := intTypeInfo(w, cv.X.Type())
				tb, tsig, ok2 := intTypeInfo(w, cv.Type())
				if !ok1 || !ok2 {
					continue
				}
				// only conversions of the reflected VALUE (v.Int(), v.Uint()); container
				// sizes and octet extraction are other rules' business
				if tk := f.term(cv.X).Key(); !strings.Contains(tk, "(reflect.Value).Int(") && !strings.Contains(tk, "(reflect.Value).Uint(") && !w.isInputInteger(cv.X) {
					continue
				}
				n++
				nm := fmt.Sprintf("%s(%s)", typeStr(cv.Type()), typeStr(cv.X.Type()))
				cnt[nm]++
				key := fmt.Sprintf("%s · conversion %s #%d", fnName(wd), nm, cnt[nm])
				src, _ := f.ValueAt(cv.X, b)
				kinds := f.kindsAt(b)
				// the kinds that reach the conversion according to the per-kind explorations
				// of the dispatch (kindcensus.go): a leaf function behind a table, a bit test
				// over the kind, a helper — both sources over-approximate, so they intersect
				if tk := f.term(cv.X).Key(); !(strings.Contains(tk, "(reflect.Value).Int(") || strings.Contains(tk, "(reflect.Value).Uint(")) {
					// not a reflected integer: other kinds (a slice fast path) may bring it here
				} else if cs := w.censusOf(wd0, "enc", cv); cs.ok {
					if kinds == nil {
						kinds = cs.kinds
					} else {
						kinds = intersectNames(kinds, cs.kinds)
					}
					if cs.src != nil && src != nil {
						src = src.Intersect(cs.src)
					}
				}
				_, changed := src.wrap(tb, tsig)
				switch {
				case changed && convOnlyCompared(cv):
					// a guard, not data (rules_writerflow.go): `uint64(i64)+(1<<31) > MaxUint32`
					r.add(rule, key, w.instrPos(cv), true, fmt.Sprintf("the result of the conversion is only compared (a range guard): it never reaches the wire (kinds here: %v)", kinds))
				case !changed && tb < sb && func() bool { p, _ := w.refusesRepresentable(cv, f, tb, tsig); return p != "" }():
					pos, set := w.refusesRepresentable(cv, f, tb, tsig)
					r.add(rule, key, w.instrPos(cv), false, fmt.Sprintf("the range test in front of the conversion refuses values that fit: the error return at %s is reached with operand ∈ %s, which meets the range of %s — a representable value is not carried", pos, set, typeStr(cv.Type())))
				case !changed:
					o := r.add(rule, key, w.instrPos(cv), true, fmt.Sprintf("operand ∈ %s fits %s (kinds here: %v)", src, typeStr(cv.Type()), kinds))
					o.Trivial = tb > sb
				case tb == sb && ssig != tsig && tb < 64:
					// only the widest wire integer has no exact alternative: an unsigned value
					// reinterpreted as a narrower signed one denotes a negative number for every
					// receiver that is not statically typed (top level, untyped lists and maps),
					// while the 64-bit wire integer would carry it exactly
					r.add(rule, key, w.instrPos(cv), false, fmt.Sprintf("same-width reinterpretation %s→%s (kinds %v) of operand ∈ %s: values above the signed maximum go on the wire as negative numbers although the 64-bit wire integer carries them exactly", typeStr(cv.X.Type()), typeStr(cv.Type()), kinds, src))
				case tb == sb && ssig != tsig:
					ok, fact := w.decoderInverts(kinds, cv)
					r.add(rule, key, w.instrPos(cv), ok, fmt.Sprintf("same-width reinterpretation %s→%s (kinds %v): %s", typeStr(cv.X.Type()), typeStr(cv.Type()), kinds, fact))
				default:
					// the conversion may precede its guard (narrow first, then compare the
					// round trip): what counts is the operand's range where the result is used
					if seen, lossy, fact := w.convVerdict(cv); seen && !lossy {
						// the guard must refuse ONLY what does not fit: on every error return whose
						// path constrains the operand, the operand's set is disjoint from the target range
						if pos, set := w.refusesRepresentable(cv, f, tb, tsig); pos != "" {
							r.add(rule, key, w.instrPos(cv), false, fmt.Sprintf("the range test in front of the conversion refuses values that fit: the error return at %s is reached with operand ∈ %s, which meets the range of %s — a representable value is not carried", pos, set, typeStr(cv.Type())))
							continue
						}
						r.add(rule, key, w.instrPos(cv), true, "narrowing conversion whose result is only used where the operand fits: "+fact)
						continue
					}
					r.add(rule, key, w.instrPos(cv), false, fmt.Sprintf("narrowing conversion: operand ∈ %s does not fit %s (kinds here: %v) — a value outside the target range is silently altered", src, typeStr(cv.Type()), kinds))
				}
			}
		}
	}
	r.floor(rule, n, 2)
}

// ruleNoIntThroughFloat: on the decode path no integer wider than a float64
// mantissa (int64, uint64, int, uint) is converted to a floating-point type:
// above 2^53 the conversion is not injective, so the decoded number changes.
func (w *World) ruleNoIntThroughFloat(r *Report, rule string) {
	eps := w.decodeEntryPoints()
	reach := w.reachPkg(eps...)
	n, bad := 0, 0
	for _, fn := range w.SrcFuncs() {
		if !reach[fn] {
			continue
		}
		cnt := 0
		for _, b := range fn.Blocks {
			for _, in := range b.Instrs {
				cv, ok := in.(*ssa.Convert)
				if !ok {
					continue
				}
				n++
				sb, _, isInt := intTypeInfo(w, cv.X.Type())
				tb, isB := cv.Type().Underlying().(*types.Basic)
				if !isInt || !isB || tb.Info()&types.IsFloat == 0 {
					continue
				}
				if sb <= 32 {
					continue // every 32-bit integer is exactly representable in a float64
				}
				if tb.Kind() == types.Float64 {
					// provably small operand?
					f := w.flow(fn)
					if s, _ := f.ValueAt(cv.X, b); s != nil && s.SubsetOf(mkSet(-(1<<53), 1<<53)) {
						continue
					}
				}
				bad++
				cnt++
				r.add(rule, fmt.Sprintf("%s · conversion %s(%s) #%d", fnName(fn), typeStr(cv.Type()), typeStr(cv.X.Type()), cnt), w.instrPos(cv), false,
					"a 64-bit integer decoded from the wire is converted to a floating-point type: values above 2^53 (e.g. 2^53+1, MaxInt64) come back as a different number")
			}
		}
	}
	if bad == 0 {
		r.add(rule, "census", "-", true, fmt.Sprintf("%d conversions in %d functions reachable from the decode entry points: none takes a 64-bit integer to a float", n, len(reach)))
	}
	r.floor(rule+" (conversions scanned)", n, 20)
}

var kindNames = map[int64]string{1: "Bool", 2: "Int", 3: "Int8", 4: "Int16", 5: "Int32", 6: "Int64", 7: "Uint", 8: "Uint8", 9: "Uint16", 10: "Uint32", 11: "Uint64", 12: "Uintptr", 13: "Float32", 14: "Float64", 15: "Complex64", 16: "Complex128", 17: "Array", 18: "Chan", 19: "Func", 20: "Interface", 21: "Map", 22: "Ptr", 23: "Slice", 24: "String", 25: "Struct", 26: "UnsafePointer"}

// kindsAt: names of the reflect kinds possible at block b according to the
// refined Kind() facts (the most constrained Kind term in the environment).
func (f *Flow) kindsAt(b *ssa.BasicBlock) []string {
	env := f.At(b)
	var best ISet
	for k, v := range env {
		if len(k) > 5 && (containsStr(k, ".Kind(")) && k[:5] == "pure:" {
			if best == nil || v.Card().Cmp(best.Card()) < 0 {
				best = v
			}
		}
	}
	if best == nil {
		return nil
	}
	el, ok := best.Elems(27)
	if !ok {
		return nil
	}
	var out []string
	for _, k := range el {
		out = append(out, kindNames[k])
	}
	sort.Strings(out)
	return out
}

func containsStr(s, sub string) bool {
	for i := 0; i+len(sub) <= len(s); i++ {
		if s[i:i+len(sub)] == sub {
			return true
		}
	}
	return false
}

// decoderInverts: for each kind, readField has a branch for that kind that
// applies the inverse same-width conversion before the reflect setter.
func (w *World) decoderInverts(kinds []string, enc *ssa.Convert) (bool, string) {
	rf := w.fn("(*Decoder).readField")
	if rf == nil {
		return false, "(*Decoder).readField not found"
	}
	f := w.flow(rf)
	wantSrc, wantDst := typeStr(enc.Type()), typeStr(enc.X.Type()) // inverse direction
	if wantDst == "uint" {
		wantDst = "uint64"
	}
	for _, k := range kinds {
		found := false
		for _, b := range rf.Blocks {
			ks := f.kindsAt(b)
			has := false
			for _, x := range ks {
				if x == k {
					has = true
				}
			}
			if !has || len(ks) > 6 {
				continue
			}
			for _, in := range b.Instrs {
				if cv, ok := in.(*ssa.Convert); ok && typeStr(cv.X.Type()) == wantSrc && typeStr(cv.Type()) == wantDst {
					found = true
				}
			}
		}
		if !found {
			// the branch of the kind may be a function reached through a table of
			// field readers: the paths of the kind are what counts
			found = w.convOnKindPaths(rf, kindByName[k], wantSrc, wantDst)
		}
		if !found {
			return false, fmt.Sprintf("readField has no %s(%s) conversion on the branch of kind %s", wantDst, wantSrc, k)
		}
	}
	return true, fmt.Sprintf("readField applies %s(%s) on the branches of %v", wantDst, wantSrc, kinds)
}

// ruleFloatKinds: Float32 and Float64 are written with the double codec and
// read with the double codec in readField.
func (w *World) ruleFloatKinds(r *Report, rule string) {
	tbl, err := w.kindTables()
	if err != nil {
		r.undecided(rule, "kind tables", "-", err.Error())
		return
	}
	for _, k := range []string{"Float32", "Float64"} {
		e, d := tbl.enc[k], tbl.dec[k]
		r.add(rule, "kind "+k, "-", e == "double" && d == "double", fmt.Sprintf("encoder writes %s as %q, readField reads it as %q", k, e, d))
	}
}

// ruleNoValueRejection: on the branches of readField for the given kinds the
// only error returned is the wire reader's own error (no value-dependent
// rejection: e.g. every float32 including the infinities must come back).
func (w *World) ruleNoValueRejection(r *Report, rule string, kinds []string) {
	rf := w.fn("(*Decoder).readField")
	if rf == nil {
		r.undecided(rule, "(*Decoder).readField", "-", "anchor not found")
		return
	}
	want := map[string]bool{}
	for _, k := range kinds {
		want[k] = true
	}
	f := w.flow(rf)
	idx := errIndex(rf.Signature)
	n := 0
	for _, b := range rf.Blocks {
		ret, ok := b.Instrs[len(b.Instrs)-1].(*ssa.Return)
		if !ok || !f.Reachable(b) {
			continue
		}
		ks := f.kindsAt(b)
		if len(ks) == 0 {
			continue
		}
		all := true
		for _, k := range ks {
			if !want[k] {
				all = false
			}
		}
		if !all {
			continue
		}
		e := ret.Results[idx]
		if isNilConst(e) {
			continue
		}
		n++
		okE := false
		if ex, isEx := e.(*ssa.Extract); isEx {
			if c, isC := ex.Tuple.(*ssa.Call); isC && c.Call.StaticCallee() != nil && w.inPkg(c.Call.StaticCallee()) {
				okE = true
			}
		}
		r.add(rule, fmt.Sprintf("(*Decoder).readField · error return #%d on the %v branch", n, ks), w.instrPos(ret), okE,
			map[bool]string{true: "forwards the error of the wire read", false: "returns " + describeVal(e, nil) + ": a value that was read correctly is rejected depending on its content"}[okE])
	}
	r.floor(rule, n, 1)
}

type kindTable struct {
	enc, dec map[string]string // kind name -> codec name
}

// kindTables extracts Kind -> wire codec from the encoder's value dispatch
// (WriteData) and from the decoder's field dispatch (readField): one
// exploration per kind with every Kind() pinned (kindruns.go); the codec is
// the first scalar writer / reader met on the paths of that kind.  Helpers,
// if chains, predicates over the kind and switch statements all look alike.
func (w *World) kindTables() (*kindTable, error) {
	wd, rf := w.fn("(*Encoder).WriteData"), w.fn("(*Decoder).readField")
	if wd == nil || rf == nil {
		return nil, fmt.Errorf("WriteData or readField not found")
	}
	t := &kindTable{enc: map[string]string{}, dec: map[string]string{}}
	for _, name := range scalarKinds {
		k := kindByName[name]
		for _, side := range []string{"enc", "dec"} {
			fn, out := wd, t.enc
			if side == "dec" {
				fn, out = rf, t.dec
			}
			kr := w.kindRun(fn, k, side)
			if kr.truncated {
				return nil, fmt.Errorf("exploration of %s for kind %s exceeded its budget", fnName(fn), name)
			}
			var labels []string
			for _, a := range kr.arms() {
				if a == "error" || a == "none" {
					continue
				}
				a = strings.TrimPrefix(strings.TrimPrefix(a, "scalar:"), "encode:")
				dup := false
				for _, l := range labels {
					if l == a {
						dup = true
					}
				}
				if !dup {
					labels = append(labels, a)
				}
			}
			out[name] = strings.Join(labels, "|")
		}
	}
	return t, nil
}

var _ = types.Typ

// ---- integers that are (part of) the value being encoded ----

// isInputInteger: v is an integer obtained from the value handed to the
// encoder without arithmetic: the result of reflect.Value.Int/Uint, of a type
// assertion on an interface, or an element / field / map entry / range item of
// something so obtained (also through parameters of in-package helpers, by a
// fixpoint over call sites).  Lengths and indices are not: len() and
// arithmetic end the chain.
func (w *World) isInputInteger(v ssa.Value) bool {
	if w.inputParam == nil {
		w.inputParam = map[*ssa.Parameter]bool{}
		for round := 0; round < 5; round++ {
			changed := false
			for _, fn := range w.allPkgFuncs() {
				for _, b := range fn.Blocks {
					for _, in := range b.Instrs {
						c, ok := in.(*ssa.Call)
						if !ok {
							continue
						}
						sc := c.Call.StaticCallee()
						if sc == nil || !w.inPkg(sc) || sc.Blocks == nil {
							continue
						}
						for i, a := range c.Call.Args {
							if i >= len(sc.Params) || w.inputParam[sc.Params[i]] {
								continue
							}
							if !holdsIntegers(a.Type()) {
								continue
							}
							if w.derivesFromInput(a, map[ssa.Value]bool{}) {
								w.inputParam[sc.Params[i]] = true
								changed = true
							}
						}
					}
				}
			}
			if !changed {
				break
			}
		}
	}
	return w.derivesFromInput(v, map[ssa.Value]bool{})
}

// holdsIntegers: an integer type or a slice / array / map / pointer to such.
func holdsIntegers(t types.Type) bool {
	for i := 0; i < 4; i++ {
		switch u := t.Underlying().(type) {
		case *types.Basic:
			return u.Info()&types.IsInteger != 0
		case *types.Slice:
			t = u.Elem()
		case *types.Array:
			t = u.Elem()
		case *types.Pointer:
			t = u.Elem()
		case *types.Map:
			return holdsIntegers(u.Key()) || holdsIntegers(u.Elem())
		default:
			return false
		}
	}
	return false
}

func (w *World) derivesFromInput(v ssa.Value, seen map[ssa.Value]bool) bool {
	if v == nil || seen[v] {
		return false
	}
	seen[v] = true
	switch x := v.(type) {
	case *ssa.Parameter:
		return w.inputParam[x]
	case *ssa.TypeAssert:
		return holdsIntegers(x.AssertedType)
	case *ssa.Call:
		if sc := x.Call.StaticCallee(); sc != nil {
			switch qualifiedFnName(sc) {
			case "(reflect.Value).Int", "(reflect.Value).Uint":
				return true
			}
		}
		return false
	case *ssa.Extract:
		return w.derivesFromInput(x.Tuple, seen)
	case *ssa.Next:
		return w.derivesFromInput(x.Iter, seen)
	case *ssa.Range:
		return w.derivesFromInput(x.X, seen)
	case *ssa.UnOp:
		if x.Op == token.MUL {
			return w.derivesFromInput(x.X, seen)
		}
		return false
	case *ssa.IndexAddr:
		return w.derivesFromInput(x.X, seen)
	case *ssa.Index:
		return w.derivesFromInput(x.X, seen)
	case *ssa.Lookup:
		return w.derivesFromInput(x.X, seen)
	case *ssa.Field:
		return w.derivesFromInput(x.X, seen)
	case *ssa.FieldAddr:
		return w.derivesFromInput(x.X, seen)
	case *ssa.Slice:
		return w.derivesFromInput(x.X, seen)
	case *ssa.ChangeType:
		return w.derivesFromInput(x.X, seen)
	case *ssa.Convert:
		return w.derivesFromInput(x.X, seen)
	case *ssa.Phi:
		for _, e := range x.Edges {
			if w.derivesFromInput(e, seen) {
				return true
			}
		}
	}
	return false
}

func (w *World) hasInputIntegerConv(fn *ssa.Function) bool {
	for _, b := range fn.Blocks {
		for _, in := range b.Instrs {
			if cv, ok := in.(*ssa.Convert); ok {
				if _, _, ok1 := intTypeInfo(w, cv.X.Type()); ok1 && w.isInputInteger(cv.X) {
					return true
				}
			}
		}
	}
	return false
}

// refusesRepresentable: an error return of cv's function is reached on a path
// that constrains cv's operand to a set that still contains values of the
// target type ("" if none).
func (w *World) refusesRepresentable(cv *ssa.Convert, f *Flow, tb uint, tsig bool) (string, ISet) {
	fn := cv.Parent()
	idx := errIndex(fn.Signature)
	if idx < 0 {
		return "", nil
	}
	var target ISet
	if tsig {
		target = bitsRange(tb)
	} else {
		target = ISet{{new(big.Int), new(big.Int).Sub(new(big.Int).Lsh(one, tb), one)}}
	}
	full, _ := typeRange(w, cv.X.Type())
	for _, b := range fn.Blocks {
		ret, ok := b.Instrs[len(b.Instrs)-1].(*ssa.Return)
		if !ok || !f.Reachable(b) || !w.nonNilErr(ret.Results[idx], nil, nil, 0) {
			continue
		}
		// only error returns decided by a test of the operand: the operand's definition dominates the block
		if in, ok := cv.X.(ssa.Instruction); ok && !(in.Block() == b || in.Block().Dominates(b)) {
			continue
		}
		s, _ := f.ValueAt(cv.X, b)
		if s == nil || s.Empty() || (full != nil && s.Equal(full)) {
			continue
		}
		if !s.Intersect(target).Empty() {
			return w.instrPos(ret), s
		}
	}
	return "", nil
}
