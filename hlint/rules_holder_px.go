package main

// C04.R4 / C03.R6 on the path explorer: (*_refHolder).change records the new
// slice on every live path.
//
// Exception (one symbol, one reason): a path on which a CanAddr() test came out
// true is dead, because the values the decoder hands to change come from
// reflect.MakeSlice / reflect.Append / reflect.ValueOf and are never
// addressable.  The block-walking form only understood `if CanAddr() && … {
// return }` written inside change itself; with paths, the comparison may live
// in a helper (`if !sameStorage(h.value, v) { h.value = v }`), be negated, be
// split over several ifs, and the store may be done by a setter.

import (
	"fmt"
	"go/types"
	"strings"

	"golang.org/x/tools/go/ssa"
)

func (w *World) ruleHolderChangePX(r *Report, rule string) {
	fn := w.fn("(*_refHolder).change")
	if fn == nil {
		r.undecided(rule, "(*_refHolder).change", "-", "anchor not found")
		return
	}
	var param *ssa.Parameter
	for _, p := range fn.Params[1:] {
		if typeStr(p.Type()) == "reflect.Value" {
			param = p
		}
	}
	recv := fn.Signature.Recv()
	if param == nil || recv == nil {
		r.undecided(rule, "(*_refHolder).change", w.pos(fn.Pos()), "no reflect.Value parameter")
		return
	}
	ht := recv.Type()
	if pt, ok := ht.Underlying().(*types.Pointer); ok {
		ht = pt.Elem()
	}
	hst, _ := ht.Underlying().(*types.Struct)
	prefix := types.TypeString(ht, nil) + "."
	paths, stores := 0, 0
	ok := true
	fact := ""
	var px *PX
	var canAddr []string // keys of the CanAddr() outcomes met on the current exploration
	px = w.newPX(pxHooks{
		onInstr: func(fr *pxFrame, in ssa.Instruction, st *pxState) bool {
			if c, isC := in.(*ssa.Call); isC && c.Call.StaticCallee() != nil && qualifiedFnName(c.Call.StaticCallee()) == "(reflect.Value).CanAddr" {
				canAddr = append(canAddr, px.term(c, fr, st).key)
			}
			return true
		},
		onReturn: func(fr *pxFrame, ret *ssa.Return, results []*Term, st *pxState) {
			// dead: some CanAddr() is known to have answered true on this path
			for _, k := range canAddr {
				if s, has := st.env[k]; has && s.Equal(single(1)) {
					return
				}
			}
			paths++
			pt := px.term(param, fr, st)
			stored := false
			for _, ev := range st.trace {
				if ev.Kind != "fieldstore" || len(ev.Args) != 1 || !strings.HasPrefix(ev.Extra, prefix) {
					continue
				}
				var fi int
				if _, err := fmt.Sscanf(strings.TrimPrefix(ev.Extra, prefix), "%d", &fi); err != nil || hst == nil || fi >= hst.NumFields() {
					continue
				}
				if typeStr(hst.Field(fi).Type()) == "reflect.Value" && ev.Args[0].key == pt.key {
					stored = true
				}
			}
			if stored {
				stores++
			} else if ok {
				ok = false
				fact = "a return at " + w.instrPos(ret) + " is reachable without recording the new slice (and not behind a CanAddr() test that answered true): after an append that kept the backing array the holder keeps the old, shorter slice"
			}
		},
	})
	px.Run(fn, Env{})
	switch {
	case px.Truncated:
		r.undecided(rule, "(*_refHolder).change · records the new slice on every live path", w.pos(fn.Pos()), "path exploration truncated")
		return
	case stores == 0:
		ok = false
		fact = "no store of the parameter into the holder found"
	case ok:
		fact = fmt.Sprintf("the new slice value is stored on each of the %d live paths", paths)
	}
	r.add(rule, "(*_refHolder).change · records the new slice on every live path", w.pos(fn.Pos()), ok, fact)
}
